"""Mutant / twin catalogue for the checker self-test (textual edits applied to a
scratch copy of the repaired tree; each mutant still parses)."""

DS = 'precondition/distributed_shampoo.py'
QU = 'precondition/quantization_utils.py'
SM3 = 'precondition/sm3.py'
TS = 'precondition/tearfree/shampoo.py'
SK = 'precondition/tearfree/sketchy.py'
GR = 'precondition/tearfree/grafting.py'
MO = 'precondition/tearfree/momentum.py'
OP = 'precondition/tearfree/optimizer.py'
SO = 'precondition/tearfree/second_order.py'
RS = 'precondition/tearfree/reshaper.py'
RA = 'precondition/tearfree/reallocation.py'
PX = 'precondition/tearfree/praxis_shim.py'
OCO = 'precondition/oco/algorithms.py'
TR = 'precondition/oco/train.py'

CATALOGUE = []


def M(props, name, path, old, new, count=1, kind='mutant'):
  CATALOGUE.append(dict(props=props if isinstance(props, list) else [props], name=name,
                        edits=[(path, old, new)], count=count, kind=kind))


def M2(props, name, edits, kind='mutant'):
  CATALOGUE.append(dict(props=props if isinstance(props, list) else [props], name=name,
                        edits=edits, count=1, kind=kind))


def TW(props, name, path, old, new, count=1):
  M(props, name, path, old, new, count, kind='twin')


# ------------------------------------------------------------------ C01
M(['C01', 'C07'], 'F1-total_retries-unbound', DS, "    error_ratio = 0.0\n    total_retries = 0\n", "    error_ratio = 0.0\n")
M('C01', 'newton-alpha-sign', DS, "  alpha = jnp.asarray(-1.0 / p, _MAT_INV_PTH_ROOT_DTYPE)\n  identity = jnp.eye(matrix_size, dtype=_MAT_INV_PTH_ROOT_DTYPE)\n\n  if padding_start is not None:\n    # Zero out padding in identity as well",
  "  alpha = jnp.asarray(1.0 / p, _MAT_INV_PTH_ROOT_DTYPE)\n  identity = jnp.eye(matrix_size, dtype=_MAT_INV_PTH_ROOT_DTYPE)\n\n  if padding_start is not None:\n    # Zero out padding in identity as well")
M('C01', 'newton-error-from-old-iterate', DS, "    new_error = jnp.max(jnp.abs(new_mat_m - identity))\n    return (i + 1, new_mat_m,", "    new_error = jnp.max(jnp.abs(mat_m - identity))\n    return (i + 1, new_mat_m,")
M('C01', 'newton-H-update-order', DS, "new_mat_h = jnp.matmul(mat_h, mat_m_i, precision=precision)", "new_mat_h = jnp.matmul(mat_h, mat_m, precision=precision)")
M('C01', 'newton-z-start', DS, "z = (1 + p) / (2 * jnp.linalg.norm(damped_matrix))", "z = (1 + p) / (jnp.linalg.norm(damped_matrix))")
M('C01', 'newton-h0-power', DS, "new_mat_h_0 = identity * jnp.power(z, 1.0 / p)", "new_mat_h_0 = identity * jnp.power(z, 1.0 / (p + 1))")
M('C01', 'newton-cond-or', DS, "error_above_threshold = jnp.logical_and(error > error_tolerance,\n                                            error_ratio < max_error_ratio)",
  "error_above_threshold = jnp.logical_or(error > error_tolerance,\n                                           error_ratio < max_error_ratio)")
M('C01', 'newton-converged-swap', DS, "resultant_mat_h = is_converged * mat_h + (1 - is_converged) * old_mat_h", "resultant_mat_h = is_converged * old_mat_h + (1 - is_converged) * mat_h")
M('C01', 'newton-reported-error-const', DS, "      error = jnp.max(jnp.abs(mat_m - identity)).astype(jnp.float32)\n", "      error = jnp.max(jnp.abs(new_mat_m_0 - identity)).astype(jnp.float32)\n")
M('C01', 'size1-no-ridge', DS, "    resultant_mat_h = damped_matrix**alpha\n", "    resultant_mat_h = matrix**alpha\n")
M('C01', 'matpower-odd-test', DS, "power = jax.lax.cond(i % 2 == 1,", "power = jax.lax.cond(i % 2 == 0,")
M('C01', 'matpower-no-square', DS, "    mat = jnp.matmul(mat, mat, precision=precision)\n    return i, power, mat", "    mat = jnp.matmul(mat, power, precision=precision)\n    return i, power, mat")
M('C01', 'power-iter-no-normalise', DS, "    new_v = new_v / jnp.linalg.norm(new_v)\n\n    s_v", "    new_v = new_v\n\n    s_v")
M('C01', 'power-iter-norm-estimate', DS, 's_new = jnp.einsum("i,i->", new_v, s_v, precision=precision)', 's_new = jnp.einsum("i,i->", s_v, s_v, precision=precision)')
M('C01', 'power-iter-unmasked-start', DS, "    v_0 *= (jnp.arange(len(v_0), dtype=jnp.int32) < padding_start)\n", "    v_0 *= (jnp.arange(len(v_0), dtype=jnp.int32) <= padding_start)\n")
M('C01', 'power-iter-on-unmasked-matrix', DS, "      _, max_ev = power_iteration(\n          matrix=matrix,\n          num_iters=100,\n          error_tolerance=1e-6,", "      _, max_ev = power_iteration(\n          matrix=original_matrix * 2.0,\n          num_iters=100,\n          error_tolerance=1e-6,")
M('C01', 'eigh-error-unmasked-const', DS, "  error = jnp.max(jnp.abs(eig_error))\n  error_metrics = TrainingMetrics(\n      inverse_pth_root_errors=jnp.array(error, jnp.float32))\n  if padding_start is not None:\n    val = jnp.where(padding_start == 0, 0.0, val)\n    error = jnp.where(padding_start == 0, 0.0,\n                      error_metrics.inverse_pth_root_errors)\n    error_metrics = error_metrics.replace(inverse_pth_root_errors=error)\n  val = jnp.asarray(val, orig_dtype)\n  return val, error_metrics\n\n\ndef _low_rank_root(",
  "  error = jnp.min(jnp.abs(eig_error))\n  error_metrics = TrainingMetrics(\n      inverse_pth_root_errors=jnp.array(error, jnp.float32))\n  if padding_start is not None:\n    val = jnp.where(padding_start == 0, 0.0, val)\n    error = jnp.where(padding_start == 0, 0.0,\n                      error_metrics.inverse_pth_root_errors)\n    error_metrics = error_metrics.replace(inverse_pth_root_errors=error)\n  val = jnp.asarray(val, orig_dtype)\n  return val, error_metrics\n\n\ndef _low_rank_root(")
M('C01', 'eigh-no-clamp', DS, "  clamped_e = jnp.maximum(e, ridge_epsilon)\n  inv_e = jnp.where((e == 0.0) | (clamped_e <= 0.0), 0.0,\n                    jnp.power(clamped_e, alpha))\n  val = mm(mm(u, jnp.diag(inv_e)), u.T)", "  clamped_e = e\n  inv_e = jnp.where((e == 0.0) | (clamped_e <= 0.0), 0.0,\n                    jnp.power(clamped_e, alpha))\n  val = mm(mm(u, jnp.diag(inv_e)), u.T)")
M(['C01', 'C03'], 'F20-eigh-zero-ridge-guard', DS, "  clamped_e = jnp.maximum(e, ridge_epsilon)\n  inv_e = jnp.where((e == 0.0) | (clamped_e <= 0.0), 0.0,\n                    jnp.power(clamped_e, alpha))\n  val = mm(mm(u, jnp.diag(inv_e)), u.T)", "  clamped_e = jnp.maximum(e, ridge_epsilon)\n  inv_e = jnp.where(e == 0.0, 0.0,\n                    jnp.power(clamped_e, alpha))\n  val = mm(mm(u, jnp.diag(inv_e)), u.T)")
M('C10', 'F20-lowrank-zero-ridge-guard', DS, "  clamped_e = jnp.maximum(e, ridge_epsilon)\n  inv_e = jnp.where((e == 0.0) | (clamped_e <= 0.0), 0.0,\n                    jnp.power(clamped_e, alpha))\n  assert abs(compression_rank) <= matrix_size", "  clamped_e = jnp.maximum(e, ridge_epsilon)\n  inv_e = jnp.where(e == 0.0, 0.0,\n                    jnp.power(clamped_e, alpha))\n  assert abs(compression_rank) <= matrix_size")
M(['C01', 'C03'], 'eigh-guard-zeroes-ridge-lifted-directions', DS, "  inv_e = jnp.where((e == 0.0) | (clamped_e <= 0.0), 0.0,\n                    jnp.power(clamped_e, alpha))\n  val = mm(mm(u, jnp.diag(inv_e)), u.T)", "  inv_e = jnp.where(e <= 0.0, 0.0,\n                    jnp.power(clamped_e, alpha))\n  val = mm(mm(u, jnp.diag(inv_e)), u.T)")
TW(['C01', 'C03'], 'twin-eigh-guard-negated', DS, "  inv_e = jnp.where((e == 0.0) | (clamped_e <= 0.0), 0.0,\n                    jnp.power(clamped_e, alpha))\n  val = mm(mm(u, jnp.diag(inv_e)), u.T)", "  live = jnp.logical_not((e == 0.0) | (clamped_e <= 0.0))\n  inv_e = jnp.where(live, jnp.power(clamped_e, alpha), 0.0)\n  val = mm(mm(u, jnp.diag(inv_e)), u.T)")
M('C01', 'eigh-mask-one-axis', DS, "    matrix *= ix[jnp.newaxis, :]\n    matrix *= ix[:, jnp.newaxis]\n    identity *= ix\n  if relative_matrix_epsilon:\n    _, max_ev = power_iteration(\n        matrix=matrix,\n        num_iters=100,\n        error_tolerance=error_tolerance,\n        precision=precision,",
  "    matrix *= ix[jnp.newaxis, :]\n    identity *= ix\n  if relative_matrix_epsilon:\n    _, max_ev = power_iteration(\n        matrix=matrix,\n        num_iters=100,\n        error_tolerance=error_tolerance,\n        precision=precision,")
M('C01', 'lowrank-epilogue-missing-error', DS, "    val = jnp.where(padding_start == 0, 0.0, val)\n    error = jnp.where(padding_start == 0, 0.0,\n                      error_metrics.inverse_pth_root_errors)\n    error_metrics = error_metrics.replace(inverse_pth_root_errors=error)\n  val = jnp.asarray(val, orig_dtype)\n  return val, error_metrics\n\n\ndef _fd_update_root(",
  "    val = jnp.where(padding_start == 0, 0.0, val)\n  val = jnp.asarray(val, orig_dtype)\n  return val, error_metrics\n\n\ndef _fd_update_root(")
TW('C01', 'twin-newton-rename-locals', DS, "    mat_m_i = (1 - alpha) * identity + alpha * mat_m\n    new_mat_m = jnp.matmul(mat_power(mat_m_i, p), mat_m, precision=precision)\n    new_mat_h = jnp.matmul(mat_h, mat_m_i, precision=precision)",
   "    step_matrix = alpha * mat_m + identity * (1 - alpha)\n    new_mat_m = jnp.matmul(mat_power(step_matrix, p), mat_m, precision=precision)\n    new_mat_h = jnp.matmul(mat_h, step_matrix, precision=precision)")
TW('C01', 'twin-total-retries-hoisted', DS, "  max_error_ratio = 1.2\n", "  max_error_ratio = 1.2\n  total_retries = 0\n")
TW('C01', 'twin-cond-reorder', DS, "    return jnp.logical_and(i < num_iters, error_above_threshold)", "    return jnp.logical_and(error_above_threshold, num_iters > i)")

# ------------------------------------------------------------------ C03
_SKIP = "      condition = jnp.logical_or(\n          jnp.isnan(error), error >= inverse_failure_threshold)\n      return condition.astype(error.dtype)\n\n    def _select_preconditioner(error, new_p, old_p):\n      return lax.cond(\n          _skip(error), lambda _: old_p, lambda _: new_p, operand=None)\n\n    new_preconditioners_flat = []\n    new_errors_flat = metrics_flat.inverse_pth_root_errors\n    for p, shape, prev_p, error in zip(preconditioners_flat, original_shapes,\n                                       prev_preconditioners, new_errors_flat):\n      new_preconditioners_flat.append(\n          _select_preconditioner(error, p[:shape[0], :shape[1]], prev_p))"
M('C03', 'pmap-gate-strict', DS, _SKIP, _SKIP.replace("error >= inverse_failure_threshold", "error > inverse_failure_threshold"))
M('C03', 'pmap-gate-no-isnan', DS, _SKIP, _SKIP.replace("jnp.logical_or(\n          jnp.isnan(error), error >= inverse_failure_threshold)", "(error >= inverse_failure_threshold)"))
M('C03', 'pmap-gate-swapped-arms', DS, _SKIP, _SKIP.replace("_skip(error), lambda _: old_p, lambda _: new_p, operand=None", "_skip(error), lambda _: new_p, lambda _: old_p, operand=None"))
M('C03', 'pmap-gate-literal-threshold', DS, _SKIP, _SKIP.replace("error >= inverse_failure_threshold", "error >= 0.1"))
M('C03', 'pmap-sentinel-zero', DS, "          default_training_metrics(\n              generate_fd_metrics\n          ).replace(inverse_pth_root_errors=inverse_failure_threshold))\n      init_state = [preconditioners_init, metrics_init]",
  "          default_training_metrics(\n              generate_fd_metrics\n          ).replace(inverse_pth_root_errors=0.0))\n      init_state = [preconditioners_init, metrics_init]")
M('C03', 'pmap-sentinel-dropped', DS, "          default_training_metrics(\n              generate_fd_metrics\n          ).replace(inverse_pth_root_errors=inverse_failure_threshold))\n      init_state = [preconditioners_init, metrics_init]",
  "          default_training_metrics(\n              generate_fd_metrics\n          ))\n      init_state = [preconditioners_init, metrics_init]")
M('C03', 'quantized-bucket-ungated', DS, "          _select_preconditioner(error, b[:shape[0]], prev_p.bucket_size))", "          b[:shape[0]])")
M('C03', 'quantized-diag-other-error', DS, "          _select_preconditioner(error, d[:shape[0]], prev_p.diagonal))", "          _select_preconditioner(error * 0.5, d[:shape[0]], prev_p.diagonal))")
M('C03', 'quantized-sentinel-halved', DS, "          ).replace(inverse_pth_root_errors=inverse_failure_threshold))\n      init_state = [\n          quantized_preconditioners_init,", "          ).replace(inverse_pth_root_errors=inverse_failure_threshold * 0.5))\n      init_state = [\n          quantized_preconditioners_init,")
M('C03', 'F3-sharded-blend', DS, "    predicate = jnp.logical_or(\n        jnp.isnan(errors), errors >= inverse_failure_threshold)\n    # TODO(rohananil): Check for numerical instabilities.\n    new_conditional_preconditioners = jnp.where(\n        predicate, global_stats.preconditioners, new_preconditioners)",
  "    predicate = jnp.logical_or(\n        jnp.isnan(errors), errors >= inverse_failure_threshold).astype(new_preconditioners.dtype)\n    # TODO(rohananil): Check for numerical instabilities.\n    new_conditional_preconditioners = (\n        predicate * global_stats.preconditioners +\n        (1.0 - predicate) * new_preconditioners)")
M('C03', 'sharded-sentinel-ones-only', DS, "      new_errors = jnp.ones_like(metrics_init.inverse_pth_root_errors) * (\n          inverse_failure_threshold)", "      new_errors = jnp.ones_like(metrics_init.inverse_pth_root_errors) * (\n          inverse_failure_threshold) * 0.99")
M('C03', 'sharded-gate-strict', DS, "        jnp.isnan(errors), errors >= inverse_failure_threshold)\n    # TODO(rohananil)", "        jnp.isnan(errors), errors > inverse_failure_threshold)\n    # TODO(rohananil)")
M('C03', 'sharded-ungated', DS, "    new_global_stats = GlobalShardedParameterStats(\n        new_stacked_padded_statistics, new_conditional_preconditioners,", "    new_global_stats = GlobalShardedParameterStats(\n        new_stacked_padded_statistics, new_preconditioners,")
M(['C03', 'C04'], 'efficient-cond-runs-when-false', DS, "    return tuple([False] + list(results))\n\n  def _iter_condition(state):\n    return state[0]", "    return tuple([False] + list(results))\n\n  def _iter_condition(state):\n    return jnp.logical_not(state[0])")
M('C03', 'graft-denominator-unguarded', DS, "      multiplier = (grafting_update_norm / (precond_grad_norm + _EPSILON))", "      multiplier = (grafting_update_norm / precond_grad_norm)")
M('C03', 'adagrad-denominator-unguarded', DS, "      adagrad_update = scaled_grad / (\n          jnp.sqrt(new_diagonal_statistics) + diagonal_epsilon)", "      adagrad_update = scaled_grad / (\n          jnp.sqrt(new_diagonal_statistics))")
TW('C03', 'twin-gate-where-and-flipped-cmp', DS, "      return lax.cond(\n          _skip(error), lambda _: old_p, lambda _: new_p, operand=None)\n\n    new_preconditioners_flat = []",
   "      return jnp.where(_skip(error), old_p, new_p)\n\n    new_preconditioners_flat = []", count=2)
TW('C03', 'twin-sharded-flipped-cmp', DS, "        jnp.isnan(errors), errors >= inverse_failure_threshold)\n    # TODO(rohananil)", "        jnp.isnan(errors), inverse_failure_threshold <= errors)\n    # TODO(rohananil)")
TW('C03', 'twin-sharded-select', DS, "    new_conditional_preconditioners = jnp.where(\n        predicate, global_stats.preconditioners, new_preconditioners)", "    old_preconditioners = global_stats.preconditioners\n    new_conditional_preconditioners = lax.select(\n        predicate, old_preconditioners, new_preconditioners)")

M('C03', 'gate-compares-in-float64', DS, "    def _skip(error):\n      condition = jnp.logical_or(\n          jnp.isnan(error), error >= inverse_failure_threshold)\n      return condition.astype(error.dtype)\n\n    def _select_preconditioner(error, new_p, old_p):\n      return lax.cond(",
  "    def _skip(error):\n      error = error.astype(_MAT_INV_PTH_ROOT_DTYPE)\n      condition = jnp.logical_or(\n          jnp.isnan(error), error >= inverse_failure_threshold)\n      return condition.astype(error.dtype)\n\n    def _select_preconditioner(error, new_p, old_p):\n      return lax.cond(", count=3)
M('C03', 'graft-multiplier-rsqrt-tiny-eps', DS, "      multiplier = (grafting_update_norm / (precond_grad_norm + _EPSILON))", "      multiplier = grafting_update_norm * lax.rsqrt(jnp.sum(jnp.square(precond_grad)) + _EPSILON**2)")
TW('C03', 'twin-gate-cast-float32', DS, "    def _skip(error):\n      condition = jnp.logical_or(\n          jnp.isnan(error), error >= inverse_failure_threshold)\n      return condition.astype(error.dtype)\n\n    def _select_preconditioner(error, new_p, old_p):\n      return lax.cond(",
  "    def _skip(error):\n      error = error.astype(jnp.float32)\n      condition = jnp.logical_or(\n          jnp.isnan(error), error >= inverse_failure_threshold)\n      return condition.astype(error.dtype)\n\n    def _select_preconditioner(error, new_p, old_p):\n      return lax.cond(", count=3)
# ------------------------------------------------------------------ C04
M('C04', 'ds-count-plus-2', DS, "    new_state = ShampooState(count=state.count + 1, stats=new_stats)", "    new_state = ShampooState(count=state.count + 2, stats=new_stats)")
M('C04', 'sharded-count-not-advanced', DS, "        count=state.count + 1,\n        stats=ShardedShampooStats(new_global_stats, new_local_stats))", "        count=state.count,\n        stats=ShardedShampooStats(new_global_stats, new_local_stats))")
M('C04', 'sm3-count', SM3, "SM3State(count=state.count+1, stats=new_sm3_stats)", "SM3State(count=state.count, stats=new_sm3_stats)")
M('C04', 'stats-guard-off-by-one', DS, "        perform_step = step % statistics_compute_steps == 0\n        init_state = state.statistics", "        perform_step = (step + 1) % statistics_compute_steps == 0\n        init_state = state.statistics")
M('C04', 'stats-guard-residue-1', DS, "        perform_step = step % statistics_compute_steps == 0\n        init_state = state.statistics", "        perform_step = step % statistics_compute_steps == 1\n        init_state = state.statistics")
M('C04', 'pmap-guard-wrong-interval', DS, "    perform_step = step % preconditioning_compute_steps_t == 0\n\n    def _update_preconditioners():", "    perform_step = step % statistics_compute_steps == 0\n\n    def _update_preconditioners():")
M('C04', 'quantized-guard-plus-one', DS, "    perform_step = step % preconditioning_compute_steps_t == 0\n\n    def _update_quantized_preconditioners():", "    perform_step = (step + 1) % preconditioning_compute_steps_t == 0\n\n    def _update_quantized_preconditioners():")
M('C04', 'sharded-guard-on-new-count', DS, "    perform_step = state.count % preconditioning_compute_steps_t == 0\n", "    perform_step = (state.count + 1) % preconditioning_compute_steps_t == 0\n")
M('C04', 'update-fn-step-plus-one', DS, "    new_stats_flat = _compute_preconditioners(new_stats_flat, params_flat,\n                                              state.count)", "    new_stats_flat = _compute_preconditioners(new_stats_flat, params_flat,\n                                              state.count + 1)")
M('C04', 'update-fn-transform-step-shift', DS, "    outputs = jax.tree.map(\n        lambda g, s, p: _transform_grad(g, s, p, state.count), grads_flat,\n        new_stats_flat, params_flat)\n    updates_flat, new_stats_flat = list(zip(*outputs)) if outputs else ((), ())\n\n    updates = jax.tree.unflatten(treedef, updates_flat)\n    new_stats = ",
  "    outputs = jax.tree.map(\n        lambda g, s, p: _transform_grad(g, s, p, state.count + 1), grads_flat,\n        new_stats_flat, params_flat)\n    updates_flat, new_stats_flat = list(zip(*outputs)) if outputs else ((), ())\n\n    updates = jax.tree.unflatten(treedef, updates_flat)\n    new_stats = ")
M('C04', 'update-fn-precond-before-stats', DS, "    new_stats_flat = _compute_preconditioners(new_stats_flat, params_flat,\n                                              state.count)", "    new_stats_flat = _compute_preconditioners(stats_flat, params_flat,\n                                              state.count)")
M('C04', 'warmup-strict', DS, "    run_shampoo = (step >= start_preconditioning_step).astype(", "    run_shampoo = (step > start_preconditioning_step).astype(")
M('C04', 'warmup-swapped', DS, "    momentum_update = (\n        run_shampoo * shampoo_update_with_wd_momentum +\n        (1.0 - run_shampoo) * grafting_update_with_wd_momentum)", "    momentum_update = (\n        run_shampoo * grafting_update_with_wd_momentum +\n        (1.0 - run_shampoo) * shampoo_update_with_wd_momentum)")
M('C04', 'metrics-identity-arm-recomputed', DS, "          metrics_for_state = efficient_cond(perform_step,\n                                             lambda: [metrics_for_state],\n                                             [state.training_metrics])[0]\n          # pylint:enable=cell-var-from-loop\n        else:\n          metrics_for_state = optax.MaskedNode()\n        metrics_for_states.append(metrics_for_state)\n\n        idx += num_statistics\n    new_states = []",
  "          metrics_for_state = efficient_cond(perform_step,\n                                             lambda: [metrics_for_state],\n                                             [metrics_for_state])[0]\n          # pylint:enable=cell-var-from-loop\n        else:\n          metrics_for_state = optax.MaskedNode()\n        metrics_for_states.append(metrics_for_state)\n\n        idx += num_statistics\n    new_states = []")
M('C04', 'sharded-keep-old-polarity', DS, "          new_local_stats_flat, metrics, ~perform_step)", "          new_local_stats_flat, metrics, perform_step)")
M('C04', 'schedule-clamp-inside', DS, "  return jnp.maximum((preconditioning_compute_steps_t // 10) * 10, 1)", "  return (jnp.maximum(preconditioning_compute_steps_t, 1) // 10) * 10")
M('C04', 'ts-precond-gated-on-stats', TS, "  should_update_precond = (\n      state.count % options.update_preconditioners_freq\n  ) == 0\n", "  should_update_precond = jnp.logical_and(\n      state.count % options.update_preconditioners_freq == 0, should_update_stats)\n")
M('C04', 'ts-count', TS, "  new_state = _ShampooState(count=state.count + 1, blocks=blocks)", "  new_state = _ShampooState(count=state.count + options.update_statistics_freq, blocks=blocks)")
M('C04', 'ts-stats-else-recompute', TS, "  blocks = jax.lax.cond(\n      should_update_stats, stats_updated_blocks, lambda: blocks\n  )", "  blocks = jax.lax.cond(\n      should_update_stats, stats_updated_blocks, stats_updated_blocks\n  )")
M('C04', 'ts-roots-refresh-touches-stats', TS, "  return _AxesBlocks(roots=new_roots, stats=block.stats)", "  return _AxesBlocks(roots=new_roots, stats=[s * 1.0 + 0.0 * r for s, r in zip(block.stats, new_roots)])")
M('C04', 'sk-guard-count-plus-one', SK, "  should_update_stats = (state.count % options.update_freq) == 0", "  should_update_stats = ((state.count + 1) % options.update_freq) == 0")
M('C04', 'sk-ekfac-tail-not-restored', SK, "          tail=axis_state.tail,\n          inv_tail=axis_state.inv_tail,", "          inv_tail=axis_state.inv_tail,")
M('C04', 'graft-warmup-strict', GR, "          state.count >= start_preconditioning_step,", "          state.count > start_preconditioning_step,")
M('C04', 'graft-warmup-swapped', GR, "          base * multiplier,\n          graft_upd,\n      )", "          graft_upd,\n          base * multiplier,\n      )")
M('C04', 'graft-count', GR, "        count=state.count + 1,\n        direction=base_state,", "        count=state.count + 0,\n        direction=base_state,")
TW('C04', 'twin-jnp-mod', DS, "        perform_step = step % statistics_compute_steps == 0\n        init_state = state.statistics", "        perform_step = jnp.equal(jnp.mod(step, statistics_compute_steps), 0)\n        init_state = state.statistics")
TW('C04', 'twin-count-commuted', DS, "    new_state = ShampooState(count=state.count + 1, stats=new_stats)", "    next_count = 1 + state.count\n    new_state = ShampooState(stats=new_stats, count=next_count)")
TW('C04', 'twin-warmup-flipped', DS, "    run_shampoo = (step >= start_preconditioning_step).astype(", "    run_shampoo = (start_preconditioning_step <= step).astype(")

M(['C01', 'C02'], 'eigh-dispatch-drops-relative-epsilon', DS, "                                        error_tolerance, precision,\n                                        relative_matrix_epsilon, padding_start,\n                                        prev)",
  "                                        error_tolerance, precision,\n                                        padding_start=padding_start,\n                                        prev=prev)")
M(['C01', 'C02'], 'factory-partial-drops-relative-epsilon', DS, "      precision=precision,\n      relative_matrix_epsilon=relative_matrix_epsilon,\n      lobpcg_topk_precondition", "      precision=precision,\n      lobpcg_topk_precondition")
M(['C01', 'C02'], 'factory-partial-constant-ridge', DS, "      ridge_epsilon=matrix_epsilon,\n      precision=precision,", "      ridge_epsilon=1e-6,\n      precision=precision,")
TW(['C01', 'C02'], 'twin-eigh-dispatch-keywords', DS, "                                        error_tolerance, precision,\n                                        relative_matrix_epsilon, padding_start,\n                                        prev)",
  "                                        error_tolerance, precision=precision,\n                                        prev=prev, padding_start=padding_start,\n                                        relative_matrix_epsilon=relative_matrix_epsilon)")
# --- regularised input, exact ridge, epilogue predicate (found by tools/mutate.py)
M('C01', 'newton-epilogue-tests-one', DS, "    resultant_mat_h = jnp.where(padding_start == 0, 0.0, resultant_mat_h)\n", "    resultant_mat_h = jnp.where(padding_start == 1, 0.0, resultant_mat_h)\n")
M('C01', 'eigh-epilogue-error-tests-one', DS, "    val = jnp.where(padding_start == 0, 0.0, val)\n    error = jnp.where(padding_start == 0, 0.0,\n                      error_metrics.inverse_pth_root_errors)\n    error_metrics = error_metrics.replace(inverse_pth_root_errors=error)\n  val = jnp.asarray(val, orig_dtype)\n  return val, error_metrics\n\n\ndef _low_rank_root(",
  "    val = jnp.where(padding_start == 0, 0.0, val)\n    error = jnp.where(padding_start == 1, 0.0,\n                      error_metrics.inverse_pth_root_errors)\n    error_metrics = error_metrics.replace(inverse_pth_root_errors=error)\n  val = jnp.asarray(val, orig_dtype)\n  return val, error_metrics\n\n\ndef _low_rank_root(")
M('C01', 'eigh-ridge-subtracted', DS, "  regularized_input = matrix + ridge_epsilon * identity\n  e, u = jnp.linalg.eigh(regularized_input)\n  # Due to padding, we may have to zero out eigenvalues.\n  if padding_start is not None:\n    e *= jnp.flip(ix)\n  mm = functools.partial(jnp.matmul, precision=precision)",
  "  regularized_input = matrix - ridge_epsilon * identity\n  e, u = jnp.linalg.eigh(regularized_input)\n  # Due to padding, we may have to zero out eigenvalues.\n  if padding_start is not None:\n    e *= jnp.flip(ix)\n  mm = functools.partial(jnp.matmul, precision=precision)")
M('C01', 'lowrank-absolute-ridge-doubled', DS, "    max_ev = 1.0\n  ridge_epsilon = ridge_epsilon * jnp.maximum(max_ev, error_tolerance)\n  regularized_input = matrix + ridge_epsilon * identity\n  e, u = jnp.linalg.eigh(regularized_input)\n  # Due to padding, we may have to zero out eigenvalues.\n  if padding_start is not None:\n    e *= jnp.flip(ix)\n  mm = functools.partial(jnp.matmul, precision=jax.lax.Precision.HIGHEST)",
  "    max_ev = 2.0\n  ridge_epsilon = ridge_epsilon * jnp.maximum(max_ev, error_tolerance)\n  regularized_input = matrix + ridge_epsilon * identity\n  e, u = jnp.linalg.eigh(regularized_input)\n  # Due to padding, we may have to zero out eigenvalues.\n  if padding_start is not None:\n    e *= jnp.flip(ix)\n  mm = functools.partial(jnp.matmul, precision=jax.lax.Precision.HIGHEST)")
M('C01', 'lowrank-error-sign', DS, "  recovered_e = mm(u.T, mm(regularized_input, u))\n  eig_error = recovered_e - jnp.diag(e)\n  if padding_start is not None:\n    eig_error *= jnp.flip(ix)\n  error = jnp.max(jnp.abs(eig_error))\n  # With a zero ridge", "  recovered_e = mm(u.T, mm(regularized_input, u))\n  eig_error = recovered_e + jnp.diag(e)\n  if padding_start is not None:\n    eig_error *= jnp.flip(ix)\n  error = jnp.max(jnp.abs(eig_error))\n  # With a zero ridge")
M('C01', 'newton-ridge-divided', DS, "  ridge_epsilon = ridge_epsilon * jnp.maximum(max_ev, _EPSILON)\n", "  ridge_epsilon = ridge_epsilon / jnp.maximum(max_ev, _EPSILON)\n")
M('C01', 'lobpcg-reference-ridge-subtracted', DS, "    unconditioned_damped_matrix = original_matrix + ridge_epsilon * identity\n", "    unconditioned_damped_matrix = original_matrix + ridge_epsilon / 2 * identity\n")
TW('C01', 'twin-eigh-regularised-reordered', DS, "  regularized_input = matrix + ridge_epsilon * identity\n  e, u = jnp.linalg.eigh(regularized_input)\n  # Due to padding, we may have to zero out eigenvalues.\n  if padding_start is not None:\n    e *= jnp.flip(ix)\n  mm = functools.partial(jnp.matmul, precision=precision)",
  "  regularized_input = identity * ridge_epsilon + matrix\n  e, u = jnp.linalg.eigh(regularized_input)\n  # Due to padding, we may have to zero out eigenvalues.\n  if padding_start is not None:\n    e *= jnp.flip(ix)\n  mm = functools.partial(jnp.matmul, precision=precision)")
TW('C01', 'twin-epilogue-mirrored', DS, "    resultant_mat_h = jnp.where(padding_start == 0, 0.0, resultant_mat_h)\n", "    resultant_mat_h = jnp.where(0 != padding_start, resultant_mat_h, 0.0)\n")

M(['C01', 'C03'], 'F21-size1-error-constant', DS, "    error = jnp.max(\n        jnp.where(jnp.isfinite(resultant_mat_h), 0.0, jnp.nan)).astype(\n            jnp.float32)\n", "    error = jnp.array(0, jnp.float32)\n")
TW(['C01', 'C03'], 'twin-size1-error-residual', DS, "    error = jnp.max(\n        jnp.where(jnp.isfinite(resultant_mat_h), 0.0, jnp.nan)).astype(\n            jnp.float32)\n", "    error = jnp.max(jnp.abs(resultant_mat_h**p * damped_matrix - 1.0)).astype(jnp.float32)\n")

M2(['C01', 'C03'], 'eigh-clamp-at-raw-ridge', [(DS, "  ridge_epsilon = ridge_epsilon * jnp.maximum(max_ev, error_tolerance)\n  regularized_input = matrix + ridge_epsilon * identity\n  e, u = jnp.linalg.eigh(regularized_input)\n  # Due to padding, we may have to zero out eigenvalues.\n  if padding_start is not None:\n    e *= jnp.flip(ix)\n  mm = functools.partial(jnp.matmul, precision=precision)",
   "  scaled_ridge = ridge_epsilon * jnp.maximum(max_ev, error_tolerance)\n  regularized_input = matrix + scaled_ridge * identity\n  e, u = jnp.linalg.eigh(regularized_input)\n  # Due to padding, we may have to zero out eigenvalues.\n  if padding_start is not None:\n    e *= jnp.flip(ix)\n  mm = functools.partial(jnp.matmul, precision=precision)")])

# ------------------------------------------------------------------ C02
M('C02', 'momentum-wrong-buffer', DS, "        state.momentum.to_float() * beta1 + w * shampoo_update_with_wd)", "        state.diagonal_momentum.to_float() * beta1 + w * shampoo_update_with_wd)")
M('C02', 'wd-before-graft-rescale', DS, "    shampoo_update = precond_grad * multiplier\n", "    shampoo_update = (precond_grad + weight_decay * param) * multiplier\n")
M('C02', 'nesterov-drops-w', DS, "      nesterov_momentum_update = w * wd_update + beta1 * momentum_update", "      nesterov_momentum_update = wd_update + beta1 * momentum_update")
M('C02', 'coupled-flags-swapped', DS, "    preconditioner_multiplier = lr if not decoupled_learning_rate else 1.0", "    preconditioner_multiplier = lr if decoupled_learning_rate else 1.0")
M('C02', 'F17-none-graft-coupled-lr', DS, "      if graft_type == GraftingType.NONE:\n        # Without grafting there is no norm transplant to carry a coupled\n        # learning rate into the preconditioned update.\n        precond_grad = precond_grad * preconditioner_multiplier\n", "")
M('C02', 'decoupled-wd-lr-swapped', DS, "      wd_lr = 1.0 if decoupled_learning_rate else lr", "      wd_lr = lr if decoupled_learning_rate else 1.0")
M('C02', 'rmsprop-w2', DS, "      w1 = beta2\n      w2 = jnp.where(beta2 == 1.0, beta2, 1.0 - beta2)\n\n      new_diagonal_statistics", "      w1 = beta2\n      w2 = jnp.where(beta2 == 1.0, 1.0 - beta2, beta2)\n\n      new_diagonal_statistics")
M('C02', 'adagrad-normalized-missing', DS, "      if graft_type == GraftingType.ADAGRAD_NORMALIZED:\n        scaled_grad = grad / (jnp.linalg.norm(grad) + _EPSILON)", "      if graft_type == GraftingType.RMSPROP_NORMALIZED:\n        scaled_grad = grad / (jnp.linalg.norm(grad) + _EPSILON)")
M('C02', 'clip-inverted', DS, "        clipping_denom = jnp.maximum(\n            1., scaled_grad_norm / clip_by_scaled_gradient_norm)", "        clipping_denom = jnp.minimum(\n            1., scaled_grad_norm / clip_by_scaled_gradient_norm)")
M('C02', 'sign-flip', DS, "    transformed_update = -1.0 * momentum_multiplier * nesterov_momentum_update", "    transformed_update = momentum_multiplier * nesterov_momentum_update")
M('C02', 'mavg-weight', DS, "    w = (1.0 - beta1) if moving_average_for_momentum else 1.0", "    w = (1.0 - beta2) if moving_average_for_momentum else 1.0")
M('C02', 'lr-schedule-step', DS, "      lr = learning_rate(step)\n\n    preconditioner_multiplier", "      lr = learning_rate(step + 1)\n\n    preconditioner_multiplier")
M('C02', 'skip-uses-sgd', DS, "      precond_grad = grafting_update\n\n    grafting_update_norm", "      precond_grad = sgd_update\n\n    grafting_update_norm")
M('C02', 'stored-momentum-nesterov-leak', DS, "    new_momentum = shampoo_update_with_wd_momentum\n", "    new_momentum = nesterov_momentum_update if nesterov else shampoo_update_with_wd_momentum\n")
M('C02', 'exponent-len', DS, "    num_preconditioners = sum(should_preconditioned_dims)\n    return 2 * num_preconditioners", "    num_preconditioners = len(should_preconditioned_dims)\n    return 2 * num_preconditioners")
M('C02', 'exponent-override-polarity', DS, "          exponents.append(preconditioner.exponent_for_preconditioner(\n          ) if exponent_override == 0 else exponent_override)", "          exponents.append(preconditioner.exponent_for_preconditioner(\n          ) if exponent_override != 0 else exponent_override)")
M('C02', 'stats-weights-swapped', DS, "            state.statistics,\n            grad,\n            w1=w1,\n            w2=w2,", "            state.statistics,\n            grad,\n            w1=w2,\n            w2=w1,")
M('C02', 'gram-weights-swapped', DS, "  return w1 * old_stats + w2 * gram_matrix", "  return w2 * old_stats + w1 * gram_matrix")
M('C02', 'gram-axes', DS, "  axes = [i for i in range(g.ndim) if i != axis]\n  gram_matrix", "  axes = [i for i in range(g.ndim) if i == axis]\n  gram_matrix")
M('C02', 'stat-index-not-advanced', DS, "        new_stats.append(from_float(new_stat))\n        index += 1", "        new_stats.append(from_float(new_stat))\n      index += 1")
M('C02', 'block-contract-axis1', DS, "      g = jnp.tensordot(g, preconditioners[j], axes=[[0], [0]])\n    return g", "      g = jnp.tensordot(g, preconditioners[j], axes=[[0], [1]])\n    return g")
M('C02', 'block-skip-no-roll', DS, "      if not should_precondition:\n        g = jnp.transpose(g, axes=roll)\n        continue", "      if not should_precondition:\n        continue")
M('C02', 'transform-touches-statistics', DS, "        _quantize_diagonal_statistics(new_diagonal_statistics),\n        state.statistics,\n        state.preconditioners,\n        _quantize_momentum(new_diagonal_momentum),", "        _quantize_diagonal_statistics(new_diagonal_statistics),\n        [s * beta2 for s in state.statistics],\n        state.preconditioners,\n        _quantize_momentum(new_diagonal_momentum),")
TW('C02', 'twin-rename-and-reorder', DS, "    w = (1.0 - beta1) if moving_average_for_momentum else 1.0\n\n    shampoo_update_with_wd_momentum = (\n        state.momentum.to_float() * beta1 + w * shampoo_update_with_wd)",
   "    mom_weight = 1.0 if not moving_average_for_momentum else (1.0 - beta1)\n    w = mom_weight\n\n    shampoo_update_with_wd_momentum = (\n        w * shampoo_update_with_wd + beta1 * state.momentum.to_float())")
TW('C02', 'twin-multiplier-inline', DS, "    shampoo_update = precond_grad * multiplier\n", "    shampoo_update = multiplier * precond_grad\n")

M(['C04', 'C02'], 'dispatcher-quantized-scheduled-inverted', DS, "       quantized_bucket_sizes_flat, metrics_flat) = lax.cond(\n           steps == 1,", "       quantized_bucket_sizes_flat, metrics_flat) = lax.cond(\n           steps != 1,")
M(['C04', 'C02'], 'dispatcher-scheduled-every-step-at-two', DS, "      preconditioners_flat, metrics_flat = lax.cond(\n          steps == 1,", "      preconditioners_flat, metrics_flat = lax.cond(\n          steps == 2,")
M(['C04', 'C02'], 'dispatcher-unscheduled-inverted', DS, "      if steps == 1:\n        preconditioners_flat, metrics_flat = update_preconditioners_every_fn()", "      if steps != 1:\n        preconditioners_flat, metrics_flat = update_preconditioners_every_fn()")
M(['C04', 'C02'], 'sharded-dispatch-functions-swapped', DS, "    (new_preconditioners, metrics, _, _) = _update_preconditioners_fn(\n        _internal_inverse_pth_root_all,\n        _update_preconditioners,", "    (new_preconditioners, metrics, _, _) = _update_preconditioners_fn(\n        _update_preconditioners,\n        _internal_inverse_pth_root_all,")
TW(['C04', 'C02'], 'twin-dispatcher-mirrored', DS, "      preconditioners_flat, metrics_flat = lax.cond(\n          steps == 1,", "      preconditioners_flat, metrics_flat = lax.cond(\n          1 == steps,")

M(['C04', 'C02'], 'scheduled-flag-or', DS, "        decay_preconditioning_compute_steps\n        and end_preconditioning_compute_steps\n        and callable(learning_rate)\n    )\n\n    preconditioning_compute_steps_t = preconditioning_compute_steps\n    if scheduled_preconditioning_compute_steps:\n      preconditioning_compute_steps_t = preconditioning_compute_steps_schedule(\n          learning_rate,\n          preconditioning_compute_steps,\n          end_preconditioning_compute_steps,\n          step,", "        decay_preconditioning_compute_steps\n        or end_preconditioning_compute_steps\n        and callable(learning_rate)\n    )\n\n    preconditioning_compute_steps_t = preconditioning_compute_steps\n    if scheduled_preconditioning_compute_steps:\n      preconditioning_compute_steps_t = preconditioning_compute_steps_schedule(\n          learning_rate,\n          preconditioning_compute_steps,\n          end_preconditioning_compute_steps,\n          step,", count=2)

M(['C04', 'C02'], 'sharded-roots-of-stale-statistics', DS, "      preconditioners, metrics = _matrix_inverse_pth_root_pjit(\n          new_stacked_padded_statistics,\n", "      preconditioners, metrics = _matrix_inverse_pth_root_pjit(\n          global_stats.statistics,\n")
M('C04', 'sharded-roots-with-padding-starts-as-exponents', DS, "          new_stacked_padded_statistics,\n          global_stats.exponents,\n          stacked_padding_starts,\n", "          new_stacked_padded_statistics,\n          stacked_padding_starts,\n          global_stats.exponents,\n")

# ------------------------------------------------------------------ C05
M(['C05', 'C02'], 'graft-norm-from-grad', DS, "    grafting_update_norm = jnp.linalg.norm(grafting_update)", "    grafting_update_norm = jnp.linalg.norm(grad)")
M(['C05', 'C02'], 'graft-norm-squared', DS, "      multiplier = (grafting_update_norm / (precond_grad_norm + _EPSILON))", "      multiplier = (grafting_update_norm / (precond_grad_norm**2 + _EPSILON))")
M(['C05', 'C02'], 'graft-multiplier-inverted', DS, "      multiplier = (grafting_update_norm / (precond_grad_norm + _EPSILON))", "      multiplier = (precond_grad_norm / (grafting_update_norm + _EPSILON))")
M(['C05', 'C02'], 'graft-add-not-scale', DS, "    shampoo_update = precond_grad * multiplier\n", "    shampoo_update = precond_grad * multiplier + 0.01 * grafting_update\n")
M('C05', 'tf-norm-of-base-sq', GR, "          base_norm > 0.0, jnp.linalg.norm(graft_upd) / base_norm, 0.0", "          base_norm > 0.0, jnp.linalg.norm(graft_upd) / (base_norm * base_norm), 0.0")
M('C05', 'tf-zero-guard-one', GR, "          base_norm > 0.0, jnp.linalg.norm(graft_upd) / base_norm, 0.0", "          base_norm > 0.0, jnp.linalg.norm(graft_upd) / base_norm, 1.0")
M('C05', 'tf-masked-returns-base', GR, "      if _masked(base):\n        return graft_upd", "      if _masked(base):\n        return base")
M('C05', 'tf-false-arm-base', GR, "          base * multiplier,\n          graft_upd,\n      )", "          base * multiplier,\n          base,\n      )")
M('C05', 'tf-maybe-graft-args-swapped', GR, "        maybe_graft, graft_updates, base_updates, is_leaf=_masked", "        maybe_graft, base_updates, graft_updates, is_leaf=_masked")
M('C05', 'tf-norm-sees-masked', GR, "    graft_updates, graft_state = norm.update(updates, state.norm, params)", "    graft_updates, graft_state = norm.update(mask(updates), state.norm, params)")
M('C05', 'tf-dispatch-rmsprop-sgd', GR, "  if options.grafting_type == GraftingType.RMSPROP:\n    return _graft_with(\n        direction,\n        _rmsprop(options),", "  if options.grafting_type == GraftingType.RMSPROP:\n    return _graft_with(\n        direction,\n        _sgd(),")
M('C05', 'tf-rmsprop-decay-swapped', GR, "        return snew * (1 - second_moment_decay) + second_moment_decay * prev", "        return snew * second_moment_decay + (1 - second_moment_decay) * prev")
M('C05', 'tf-rmsprop-old-acc', GR, "        lambda g, acc: g * jax.lax.rsqrt(acc + epsilon), updates, new_state.acc", "        lambda g, acc: g * jax.lax.rsqrt(acc + epsilon), updates, state.acc")
M('C05', 'tf-adafactor-no-signflip', GR, "  tx.append(optax.scale(-1))", "  tx.append(optax.scale(1))")
M('C05', 'tf-mask-rank-lt', GR, "    if options.skip_preconditioning_rank1 and x.ndim <= 1:", "    if options.skip_preconditioning_rank1 and x.ndim < 1:")
M('C05', 'tf-mask-all-dims', GR, "    if any(s > options.skip_preconditioning_any_dim_gt for s in x.shape):", "    if all(s > options.skip_preconditioning_any_dim_gt for s in x.shape):")
TW('C05', 'twin-tf-multiplier-renamed', GR, "      base_norm = jnp.linalg.norm(base)\n      multiplier = jnp.where(\n          base_norm > 0.0, jnp.linalg.norm(graft_upd) / base_norm, 0.0\n      )", "      nb = jnp.linalg.norm(base)\n      ng = jnp.linalg.norm(graft_upd)\n      multiplier = jnp.where(0.0 < nb, ng / nb, 0.0)")

M(['C05', 'C02'], 'ds-skip-rank-inclusive', DS, "    return len(param.shape) < skip_preconditioning_rank_lt or any(", "    return len(param.shape) <= skip_preconditioning_rank_lt or any(")
M(['C05', 'C02'], 'ds-skip-dim-inclusive', DS, "        [s > skip_preconditioning_dim_size_gt for s in param.shape])", "        [s >= skip_preconditioning_dim_size_gt for s in param.shape])")
M(['C05', 'C02'], 'ds-skip-and', DS, "    return len(param.shape) < skip_preconditioning_rank_lt or any(", "    return len(param.shape) < skip_preconditioning_rank_lt and any(")
TW(['C05', 'C02'], 'twin-ds-skip-respelled', DS, "    return len(param.shape) < skip_preconditioning_rank_lt or any(\n        [s > skip_preconditioning_dim_size_gt for s in param.shape])", "    too_big = any(skip_preconditioning_dim_size_gt < s for s in param.shape)\n    return too_big or skip_preconditioning_rank_lt > param.ndim")
M('C02', 'init-statistics-eps-divided', DS, "            matrix_epsilon * jnp.eye(s[0], dtype=jnp.float32) for s in shapes\n", "            jnp.eye(s[0], dtype=jnp.float32) / matrix_epsilon for s in shapes\n")
M('C02', 'init-dense-preconditioner-zero', DS, "            jnp.eye(s[0], s[1], dtype=jnp.float32) * (s[0] == s[1])\n", "            jnp.eye(s[0], s[1], dtype=jnp.float32) * (s[0] != s[1])\n")
M('C02', 'sharded-init-statistics-no-eps', DS, "            matrix_epsilon * jnp.eye(max_size, dtype=jnp.float32)\n            for s in shapes\n        ]\n        pd = precond_dim(max_size)", "            jnp.eye(max_size, dtype=jnp.float32)\n            for s in shapes\n        ]\n        pd = precond_dim(max_size)")

# ------------------------------------------------------------------ C06
M('C06', 'merge-not-reversed', DS, "    for (i, indices) in reversed(self._splits):", "    for (i, indices) in self._splits:")
M('C06', 'merge-group-off-by-one', DS, "      n = len(indices) + 1\n", "      n = len(indices)\n")
M('C06', 'merge-axis-shift', DS, "            jnp.concatenate(partitions[ind:ind + n], axis=i))", "            jnp.concatenate(partitions[ind:ind + n], axis=i + 1))")
M('C06', 'partition-axis-zero', DS, "        tensors_local.extend(jnp.split(t, indices_or_sections=indices, axis=i))", "        tensors_local.extend(jnp.split(t, indices_or_sections=indices, axis=0))")
M('C06', 'nsplit-exact-multiple', DS, "        nsplit = (d - 1) // block_size", "        nsplit = d // block_size")
M('C06', 'split-guard-le', DS, "      if 0 < block_size < d:", "      if 0 < block_size <= d:")
M(['C06', 'C07'], 'F4-preconds-no-rank-case', DS, "    if self._preconditioner_type == PreconditionerType.ALL or rank <= 1:\n      # Preconditioner type is ignored for rank <= 1 (see\n      # should_precondition_dims), every dim has a preconditioner.\n      pass\n    elif self._preconditioner_type == PreconditionerType.INPUT:", "    if self._preconditioner_type == PreconditionerType.INPUT:")
M('C06', 'shapes-input-takes-last', DS, "        preconditioner_shapes.extend(map(self._preconditioner_shape, t[:-1]))", "        preconditioner_shapes.extend(map(self._preconditioner_shape, t[1:]))")
M('C06', 'dims-output-first', DS, "      return [False] * (rank - 1) + [True]", "      return [True] + [False] * (rank - 1)")
M('C06', 'slot-start-rank', DS, "          start=i * num_preconditioners,", "          start=i * len(should_preconditioned_dims),")
M('C06', 'reshape-out-transformed', DS, "    return jnp.reshape(merged_grad, self._original_shape)", "    return jnp.reshape(merged_grad, self._transformed_shape).reshape(self._original_shape[::-1]).T if False else jnp.reshape(merged_grad.T, self._original_shape)")
M('C06', 'merge-limit-doubled', DS, "    if product * d <= max_dim:", "    if product * d <= max_dim * 2:")
M('C06', 'deblockify-insert-index', TS, "  r_blocked_axis_ix = meta.large_axes[1] + 1", "  r_blocked_axis_ix = meta.blocks_axis + 2")
M('C06', 'blockify-perm-insert', TS, "  perm.insert(l_blocks_ix + 1, r_blocks_ix)", "  perm.insert(l_blocks_ix, r_blocks_ix)")
M('C06', 'blockify-one-axis-order', TS, "    new_shape = before + [meta.num_blocks, meta.large_block_size] + after", "    new_shape = before + [meta.large_block_size, meta.num_blocks] + after")
M(['C06', 'C07'], 'large-dims-guard-strict', TS, "    if sum(dim >= options.block_size for dim in param.shape) > 2:", "    if sum(dim > options.block_size for dim in param.shape) > 2:")
M('C06', 'metadata-large-strict', TS, "  large_axes = [i for i, d in enumerate(param_shape) if d >= options.block_size]", "  large_axes = [i for i, d in enumerate(param_shape) if d > options.block_size]")
M('C06', 'reshaper-pad-rounds-down', RS, "        s = (s + options.block_size - 1) // options.block_size", "        s = (s + options.block_size) // options.block_size")
M('C06', 'reshaper-pad-front', RS, "        (0, p - m) for p, m in zip(shapes.padded_shape, shapes.merged_shape)", "        (p - m, 0) for p, m in zip(shapes.padded_shape, shapes.merged_shape)")
M('C06', 'reshaper-unmerge-slice-padded', RS, "      merged = update[tuple(slice(0, m) for m in shapes.merged_shape)]", "      merged = update[tuple(slice(0, m) for m in shapes.padded_shape)]")
M('C06', 'init-no-indivisible-check', TS, "        dim % options.block_size != 0\n        for dim in param.shape\n        if dim >= options.block_size", "        dim % options.block_size != 0\n        for dim in param.shape\n        if dim >= options.block_size and False")
M('C06', 'partition-guard-le', DS, "      if 0 < block_size < d:\n        # d-1, otherwise split appends a 0-size array.", "      if 0 < block_size <= d:\n        # d-1, otherwise split appends a 0-size array.")
TW('C06', 'twin-partition-guard-respelled', DS, "      if 0 < block_size < d:\n        # d-1, otherwise split appends a 0-size array.", "      if not (block_size <= 0 or d <= block_size):\n        # d-1, otherwise split appends a 0-size array.")
TW('C06', 'twin-merge-reversed-list', DS, "    for (i, indices) in reversed(self._splits):", "    for (i, indices) in reversed(list(self._splits)):")
TW('C06', 'twin-large-lt-negated', TS, "  dims = [min(dim, options.block_size) for dim in param_shape]", "  dims = [dim if dim < options.block_size else options.block_size for dim in param_shape]")

M('C06', 'merge-limit-test-inverted', DS, "    if product * d <= max_dim:", "    if product * d >= max_dim:")
M('C06', 'merge-limit-tests-other-product', DS, "    if product * d <= max_dim:\n      product *= d", "    if product * d <= max_dim:\n      product *= d * d")
TW('C06', 'twin-merge-limit-mirrored-temp', DS, "    if product * d <= max_dim:\n      product *= d", "    candidate = d * product\n    if not max_dim < candidate:\n      product = candidate")
M('C06', 'unmerge-slice-from-one', RS, "      merged = update[tuple(slice(0, m) for m in shapes.merged_shape)]", "      merged = update[tuple(slice(1, m) for m in shapes.merged_shape)]")

# ------------------------------------------------------------------ C07
M(['C07', 'C13'], 'F2-unbatch-squeeze', DS, "    v_array = jnp.squeeze(v_array, axis=0)\n", "    v_array = jnp.squeeze(v_array)\n")
M('C07', 'F5-avg-grad-masked', DS, "    new_avg_grad = state.avg_grad\n    if not _skip_preconditioning(param):", "    new_avg_grad = optax.MaskedNode()\n    if not _skip_preconditioning(param):")
M('C07', 'F6-count-dtype', DS, "        count=[[], jnp.int32],\n", "        count=[[], jnp.float32],\n")
M('C07', 'F6-quantized-decl-swapped', DS, "        m1_shape_and_dtype = [list(param.shape), qdtype]\n", "        m1_shape_and_dtype = [list(param.shape), param.dtype]\n")
M('C07', 'F10-fd-without-reuse-accepted', DS, "  if frequent_directions and not reuse_preconditioner:\n    raise ValueError(\"frequent_directions=True requires \"\n                     \"reuse_preconditioner=True: the sketch is carried in the \"\n                     \"previous preconditioner\")\n", "")
M('C07', 'F13-dead-store', DS, "    prev_stacked_padded_preconditioners = _maybe(lax.with_sharding_constraint)(\n        prev_stacked_padded_preconditioners, statistics_partition_spec\n    )", "    prev_stacked_padded_preconditioners = _maybe(lax.with_sharding_constraint)(\n        prev_padded_preconditioners, statistics_partition_spec\n    )")
M('C07', 'F14-metrics-fd-flag-dropped', DS, "        metrics_for_states.append(\n            init_training_metrics(0, generate_training_metrics,\n                                  generate_fd_metrics))\n      else:\n        preconditioners_for_state = new_preconditioners_flat[idx:idx +\n                                                             num_statistics]\n        assert len(state.statistics) == len(preconditioners_for_state)\n        preconditioners_for_states.append(preconditioners_for_state)\n\n        if generate_training_metrics:\n          # pylint:disable=cell-var-from-loop Used immediately.\n          metrics_for_state = jax.tree.map(\n              lambda x: jnp.stack(x[idx:idx + num_statistics]),\n              metrics_flat,\n              is_leaf=lambda x: isinstance(x, list))",
  "        metrics_for_states.append(\n            init_training_metrics(0, generate_training_metrics))\n      else:\n        preconditioners_for_state = new_preconditioners_flat[idx:idx +\n                                                             num_statistics]\n        assert len(state.statistics) == len(preconditioners_for_state)\n        preconditioners_for_states.append(preconditioners_for_state)\n\n        if generate_training_metrics:\n          # pylint:disable=cell-var-from-loop Used immediately.\n          metrics_for_state = jax.tree.map(\n              lambda x: jnp.stack(x[idx:idx + num_statistics]),\n              metrics_flat,\n              is_leaf=lambda x: isinstance(x, list))")
M('C07', 'F16-fd-metrics-without-training-metrics', DS, "  generate_fd_metrics = (\n      generate_fd_metrics and frequent_directions and generate_training_metrics)", "  generate_fd_metrics = generate_fd_metrics and frequent_directions")
M('C07', 'quantized-rewrap-shape-tuple', DS, "              QuantizedValue(qv, qd, qb, qv.dtype, True, list(qv.shape)))", "              QuantizedValue(qv, qd, qb, qv.dtype, True, qv.shape))")
M('C07', 'quantized-rewrap-no-diagonal-flag', DS, "              QuantizedValue(qv, qd, qb, qv.dtype, True, list(qv.shape)))", "              QuantizedValue(qv, qd, qb, qv.dtype, False, list(qv.shape)))")
M('C07', 'sharded-count-skipped-stats', DS, "      index_start = num_statistics\n      if not _skip_preconditioning(param):\n        sizes = [s[0] for s in shapes]\n        shapes = preconditioner.shapes_for_preconditioners()\n        num_statistics += len(shapes)\n\n      qdtype = quantized_dtype_for_momentum_buffers(param)\n      m1_shape_and_dtype",
  "      index_start = num_statistics\n      if not _skip_preconditioning(param):\n        sizes = [s[0] for s in shapes]\n      num_statistics += len(shapes)\n\n      qdtype = quantized_dtype_for_momentum_buffers(param)\n      m1_shape_and_dtype")
M('C07', 'sharded-max-size-guard', DS, "      param_clone = jnp.zeros(param.shape, dtype=param.dtype)\n      preconditioner = preconditioner_from_params(param_clone)\n      if not _skip_preconditioning(param):\n        shapes = preconditioner.shapes_for_preconditioners()\n        sizes = [s[0] for s in shapes]\n        max_size = max(max(sizes), max_size)\n    return max_size",
  "      param_clone = jnp.zeros(param.shape, dtype=param.dtype)\n      preconditioner = preconditioner_from_params(param_clone)\n      shapes = preconditioner.shapes_for_preconditioners()\n      sizes = [s[0] for s in shapes]\n      if sizes:\n        max_size = max(max(sizes), max_size)\n    return max_size")
M('C07', 'sharded-pspec-metrics-flag', DS, "              init_training_metrics_pspec(\n                  generate_training_metrics,\n                  generate_fd_metrics,\n              ),", "              init_training_metrics_pspec(\n                  generate_training_metrics,\n              ),")
M('C07', 'sketchy-init-ekfac-slot', SK, "              inv_prev_tail=jnp.zeros(tuple()) if ekfac else optax.MaskedNode(),\n          )\n      )\n    return _TensorState(axes)", "              inv_prev_tail=jnp.zeros(tuple()) if add_ggt else optax.MaskedNode(),\n          )\n      )\n    return _TensorState(axes)")
M('C07', 'sm3-momentum-unquantized', SM3, "        ParameterStats(diagonal_stats, _quantize_momentum(momentum)),", "        ParameterStats(diagonal_stats, momentum),")
M('C07', 'new-unbound-local', TS, "  p = len(meta.param_shape) * 2\n\n  with jax.named_scope(\"PthInvRoot\"):", "  if meta.large_axes:\n    p = len(meta.param_shape) * 2\n\n  with jax.named_scope(\"PthInvRoot\"):")
TW('C07', 'twin-init-helper-inline', DS, "          init_avg_grad(param, frequent_directions and average_grad),\n          init_training_metrics(\n              len(statistics),", "          (jnp.zeros_like(param) if (frequent_directions and average_grad) else optax.MaskedNode()),\n          init_training_metrics(\n              len(statistics),")

M('C07', 'sm3-init-update-swapped', SM3, "  return optax.GradientTransformation(init_fn, update_fn)", "  return optax.GradientTransformation(update_fn, init_fn)")
M('C07', 'graft-spec-fn-as-update', GR, "      init=init_fn, update=update_fn, init_partition_spec=init_partition_spec_fn", "      init=init_fn, update=init_partition_spec_fn, init_partition_spec=update_fn")
M('C07', 'sgd-graft-update-as-init', GR, "      grad_transform.init,\n      grad_transform.update,\n      optax.EmptyState,", "      grad_transform.update,\n      grad_transform.init,\n      optax.EmptyState,")
M(['C07', 'C14'], 'sharded-update-stats-records-swapped', DS, "        stats=ShardedShampooStats(new_global_stats, new_local_stats))\n    return updates, new_shampoo_state", "        stats=ShardedShampooStats(new_local_stats, new_global_stats))\n    return updates, new_shampoo_state")
M(['C07', 'C14'], 'sharded-update-max-size-from-count-axis', DS, "    max_size = global_stats.statistics.shape[1]\n", "    max_size = global_stats.statistics.shape[0]\n")
TW('C07', 'twin-sharded-update-exponents-times-one', DS, "        new_stacked_padded_statistics, new_conditional_preconditioners,\n        global_stats.exponents)", "        new_stacked_padded_statistics, new_conditional_preconditioners,\n        global_stats.exponents * 1)")
M(['C07', 'C14'], 'sharded-update-exponents-recomputed', DS, "        new_stacked_padded_statistics, new_conditional_preconditioners,\n        global_stats.exponents)", "        new_stacked_padded_statistics, new_conditional_preconditioners,\n        jnp.ones_like(global_stats.exponents))")
M('C13', 'sharded-update-dummy-rows-inverted', DS, "    if not new_padded_statistics:\n      to_pad = num_devices_for_pjit", "    if new_padded_statistics:\n      to_pad = num_devices_for_pjit")
TW('C13', 'twin-sharded-update-dummy-rows-len', DS, "    if not new_padded_statistics:\n      to_pad = num_devices_for_pjit", "    if len(new_padded_statistics) == 0:\n      to_pad = num_devices_for_pjit")

M(['C07', 'C14'], 'sk-eigvecs-one-more-column', SK, "  eigvecs = u[:, :k]\n", "  eigvecs = u[:, :k + 1]\n")
M(['C07', 'C14'], 'sk-ekfac-factor-truncated', SK, "    svd_result_u = u\n", "    svd_result_u = u[:, :k]\n")
M(['C07', 'C14'], 'sk-eigvals-shorter', SK, "  top_eigs = jnp.maximum(s[:k], 0.0)\n", "  top_eigs = jnp.maximum(s[:k - 1], 0.0)\n")
TW('C07', 'twin-sk-eigvecs-slice-respelled', SK, "  eigvecs = u[:, :k]\n", "  eigvecs = u[:, 0:k]\n")

# ------------------------------------------------------------------ C08
M(['C08', 'C15'], 'F7-global-eig-cutoff', TS, "  mask = w <= eps * jnp.max(w, axis=-1, keepdims=True)", "  mask = w <= eps * jnp.max(w)")
M('C08', 'cutoff-over-blocks-axis', TS, "  mask = w <= eps * jnp.max(w, axis=-1, keepdims=True)", "  mask = w <= eps * jnp.max(w, axis=0, keepdims=True)")
M('C08', 'root-normalised-by-global-norm', TS, "  return jnp.einsum(\"bik,bjk->bij\", half_v, half_v)", "  return jnp.einsum(\"bik,bjk->bij\", half_v, half_v) / jnp.linalg.norm(w)")
M('C08', 'root-einsum-drops-block-letter', TS, "  return jnp.einsum(\"bik,bjk->bij\", half_v, half_v)", "  return jnp.einsum(\"bik,cjk->bij\", half_v, half_v)")
M('C08', 'ema-mean-over-blocks', TS, "  return old * decay + new * (1 - decay)", "  return old * decay + jnp.mean(new, axis=0, keepdims=True) * (1 - decay)")
M('C08', 'stats-vmap-wrong-axis', TS, "          dot_all, in_axes=meta.blocks_axis, out_axes=0", "          dot_all, in_axes=0, out_axes=0")
M('C08', 'precondition-einsum-blocks-letter-position', TS, "  blocked_output.insert(meta.blocks_axis, blocks_axis_letter)", "  blocked_output.insert(0, blocks_axis_letter)")
M('C08', 'precondition-einsum-roots-swapped-letters', TS, "      blocks_axis_letter + o + c\n      for c, o in zip(contraction_letters, output_letters)", "      blocks_axis_letter + o + c\n      for c, o in zip(contraction_letters, reversed(output_letters))")
M('C08', 'ds-normalise-by-global-max', DS, "    all_statistics = batch(packed_statistics, num_devices)\n", "    all_statistics = batch(packed_statistics, num_devices)\n    all_statistics = all_statistics / jnp.max(all_statistics)\n")
M('C08', 'ds-errors-max-over-stats', DS, "    new_errors_flat = metrics_flat.inverse_pth_root_errors\n    for p, shape, prev_p, error in zip(preconditioners_flat, original_shapes,\n                                       prev_preconditioners, new_errors_flat):\n      new_preconditioners_flat.append(\n          _select_preconditioner(error, p[:shape[0], :shape[1]], prev_p))\n\n    assert len(states) == len(num_statistics_per_state)\n    assert len(new_preconditioners_flat) == num_statistics\n    assert len(new_errors_flat) == len(packed_statistics)",
  "    new_errors_flat = metrics_flat.inverse_pth_root_errors\n    worst = jnp.max(jnp.stack(new_errors_flat))\n    for p, shape, prev_p, error in zip(preconditioners_flat, original_shapes,\n                                       prev_preconditioners, new_errors_flat):\n      new_preconditioners_flat.append(\n          _select_preconditioner(worst, p[:shape[0], :shape[1]], prev_p))\n\n    assert len(states) == len(num_statistics_per_state)\n    assert len(new_preconditioners_flat) == num_statistics\n    assert len(new_errors_flat) == len(packed_statistics)")
M(['C08', 'C01'], 'eigh-mask-not-flipped', DS, "    e *= jnp.flip(ix)\n  mm = functools.partial(jnp.matmul, precision=precision)", "    e *= ix\n  mm = functools.partial(jnp.matmul, precision=precision)")
TW('C08', 'twin-cutoff-amax', TS, "  mask = w <= eps * jnp.max(w, axis=-1, keepdims=True)", "  top = jnp.max(w, axis=1, keepdims=True)\n  mask = w <= eps * top")

# ------------------------------------------------------------------ C09
M(['C09', 'C15'], 'F8-tail-sqrt-decay', SK, "    tail = axis_state.tail * cov_decay + cutoff**2\n", "    tail = axis_state.tail * decay + cutoff**2\n")
M('C09', 'sk-undeflated-sqrt-decay', SK, "        jnp.square(jnp.maximum(top_eigs, 0.0)) + axis_state.tail * cov_decay\n", "        jnp.square(jnp.maximum(top_eigs, 0.0)) + axis_state.tail * decay\n")
M('C09', 'sk-ekfac-sqrt-decay', SK, "    undeflated_ekfac = jnp.square(jnp.maximum(s, 0.0)) + prev_tail * cov_decay", "    undeflated_ekfac = jnp.square(jnp.maximum(s, 0.0)) + prev_tail * decay")
M('C09', 'sk-sketch-full-decay', SK, "  updated = jnp.concatenate([sketch_dk * decay, g_dm], axis=1)", "  updated = jnp.concatenate([sketch_dk * cov_decay, g_dm], axis=1)")
M('C09', 'sk-cutoff-index', SK, "  cutoff = jnp.maximum(s[k], 0.0) if k < len(s) else 0.0", "  cutoff = jnp.maximum(s[k - 1], 0.0) if k < len(s) else 0.0")
M('C09', 'sk-alpha', SK, "  alpha = jnp.asarray(-1.0 / (2 * update.ndim), dtype=jnp.float32)", "  alpha = jnp.asarray(-1.0 / update.ndim, dtype=jnp.float32)")
M('C09', 'sk-unfold-reshape-only', SK, "  g_dm = update.transpose([dim] + all_but_dim).reshape(d, -1)", "  g_dm = update.reshape(d, -1) if dim != update.ndim - 1 else update.reshape(-1, d).T")
M('C09', 'sk-tail-missing-cutoff', SK, "    tail = axis_state.tail * cov_decay + cutoff**2\n", "    tail = axis_state.tail * cov_decay + cutoff\n")
M('C09', 'sk-inv-tail-old', SK, "  inv_tail = jnp.where(tail > 0, (tail + eps) ** alpha, 0.0)", "  inv_tail = jnp.where(tail > 0, (axis_state.tail + eps) ** alpha, 0.0)")
M('C09', 'ds-tail-sqrt-decay', DS, "  tail = tail * decay\n  new_tail = tail + rho_t", "  tail = tail * jnp.sqrt(decay)\n  new_tail = tail + rho_t")
M('C09', 'ds-upshift-undiscounted-tail', DS, "  tail = tail * decay\n  new_tail = tail + rho_t", "  new_tail = tail * decay + rho_t")
M('C09', 'ds-cutoff-index', DS, "  cutoff = s[rank]\n", "  cutoff = s[rank - 1]\n")
M('C09', 'ds-sketch-no-sqrt', DS, "          jnp.sqrt(decay) * weighted_sketch_dr,", "          decay * weighted_sketch_dr,")
M('C09', 'ds-no-clamp', DS, "  deflated_eigs = jnp.where(deflated_eigs <= 0, 0.0, deflated_eigs)\n", "")
M('C09', 'ds-const-from-old-tail', DS, "  new_const = jnp.where(new_tail <= 0, 0.0, new_tail**alpha)", "  new_const = jnp.where(new_tail <= 0, 0.0, tail**alpha)")
M('C09', 'ds-alpha-half', DS, "  alpha = jnp.asarray(-1.0 / p)\n  new_const", "  alpha = jnp.asarray(-0.5 / p)\n  new_const")
M('C09', 'ds-weighted-sketch-no-sqrt-eig', DS, "  weighted_sketch_dr = sketch_dr * jnp.sqrt(fwd_eigvals_r)", "  weighted_sketch_dr = sketch_dr * fwd_eigvals_r")
M('C09', 'ds-fd-stat-no-moveaxis', DS, "  x = jnp.reshape(jnp.moveaxis(g, axis, 0), (g.shape[axis], -1))", "  x = jnp.reshape(g, (g.shape[axis], -1))")
M(['C09', 'C16'], 'oco-alpha-rho-linear', OCO, "  state['alpha'] += alpha_update_factor * rho**2", "  state['alpha'] += alpha_update_factor * rho")
M(['C09', 'C16'], 'oco-rho-first', OCO, "  rho = s[-1]\n", "  rho = s[0]\n")
M(['C09', 'C16'], 'oco-row-zero', OCO, "  B = B.at[-1].set(grad_input)", "  B = B.at[0].set(grad_input)")
M(['C09', 'C16'], 'oco-e-not-sqrt', OCO, "  state['e'] = jnp.sqrt(s)\n", "  state['e'] = s\n")
TW('C09', 'twin-ds-deflate-expanded', DS, "  deflated_eigs = (top_eigs - cutoff) * (top_eigs + cutoff)", "  deflated_eigs = jnp.square(top_eigs) - jnp.square(cutoff)")
TW('C09', 'twin-sk-tail-commuted', SK, "    tail = axis_state.tail * cov_decay + cutoff**2\n", "    tail = jnp.square(cutoff) + cov_decay * axis_state.tail\n")

# --- guards evaluated at reference / degenerate points (found by tools/mutate.py)
M('C09', 'fd-root-mask-inverted', DS, "  upshifted_eigs *= deflated_eigs > 0.0\n", "  upshifted_eigs *= deflated_eigs < 0.0\n")
M('C09', 'fd-root-clamp-inverted', DS, "  upshifted_eigs = jnp.where(upshifted_eigs <= 0, 0.0, upshifted_eigs)\n", "  upshifted_eigs = jnp.where(upshifted_eigs >= 0, 0.0, upshifted_eigs)\n")
M('C09', 'fd-root-clamp-threshold', DS, "  inverted_eigs = jnp.where(upshifted_eigs <= 0, 0.0, upshifted_eigs**alpha)\n", "  inverted_eigs = jnp.where(upshifted_eigs <= 1, 0.0, upshifted_eigs**alpha)\n")
M('C09', 'fd-root-zero-guard-strict', DS, "  inverted_eigs = jnp.where(upshifted_eigs <= 0, 0.0, upshifted_eigs**alpha)\n", "  inverted_eigs = jnp.where(upshifted_eigs < 0, 0.0, upshifted_eigs**alpha)\n")
M('C09', 'fd-const-zero-guard-strict', DS, "  new_const = jnp.where(new_tail <= 0, 0.0, new_tail**alpha)\n", "  new_const = jnp.where(new_tail < 0, 0.0, new_tail**alpha)\n")
M('C09', 'fd-eigvec-mask-inverted', DS, "  eigvecs *= deflated_eigs > 0  # Don't introduce new directions with 0 eigs.\n", "  eigvecs *= deflated_eigs < 0  # Don't introduce new directions with 0 eigs.\n")
M('C09', 'fd-padding-mass-rescales', DS, "  eigvecs *= 1 - has_significant_padding\n", "  eigvecs *= 1 + has_significant_padding\n")
M('C09', 'fd-unsafe-norm-kept', DS, "  safe_normed = (0.99 <= norms) & (norms <= 1.01)\n", "  safe_normed = (0.99 <= norms) | (norms <= 1.01)\n")
M('C09', 'fd-unsafe-norm-window-misses-one', DS, "  safe_normed = (0.99 <= norms) & (norms <= 1.01)\n", "  safe_normed = (1.99 <= norms) & (norms <= 2.01)\n")
M('C09', 'fd-safe-division-by-mask', DS, "  eigvecs /= jnp.where(safe_normed, norms, 1.0)\n", "  eigvecs /= jnp.where(safe_normed, norms, 0.0)\n")
M('C09', 'fd-flag-always-set', DS, "  has_zeros = jnp.any(deflated_eigs <= 0) | jnp.any(new_tail <= 0)\n", "  has_zeros = jnp.any(deflated_eigs >= 0) | jnp.any(new_tail <= 0)\n")
TW('C09', 'twin-fd-masks-respelled', DS, "  eigvecs *= 1 - has_significant_padding\n  deflated_eigs *= 1 - has_significant_padding\n", "  eigvecs *= jnp.logical_not(has_significant_padding)\n  deflated_eigs *= ~has_significant_padding\n")
TW('C09', 'twin-fd-retain-zero-eigen-direction', DS, "  eigvecs *= deflated_eigs > 0  # Don't introduce new directions with 0 eigs.\n", "  eigvecs *= deflated_eigs >= 0  # Don't introduce new directions with 0 eigs.\n")
TW('C09', 'twin-fd-norm-window', DS, "  safe_normed = (0.99 <= norms) & (norms <= 1.01)\n", "  safe_normed = (norms >= 0.995) & (1.005 >= norms)\n")

M(['C09', 'C15'], 'sk-mask-inverted', SK, "  mask = deflated > 0\n", "  mask = deflated < 0\n")
M(['C09', 'C15'], 'sk-mask-keeps-zero-eigen-direction', SK, "  mask = deflated > 0\n", "  mask = deflated >= 0\n")
M(['C09', 'C15'], 'sk-mask-threshold', SK, "  mask = deflated > 0\n", "  mask = deflated > 1\n")
M(['C09', 'C15'], 'sk-inv-tail-zero-guard-loose', SK, "  inv_tail = jnp.where(tail > 0, (tail + eps) ** alpha, 0.0)\n", "  inv_tail = jnp.where(tail >= 0, (tail + eps) ** alpha, 0.0)\n")
M(['C09', 'C15'], 'sk-ekfac-zero-guard-loose', SK, "        undeflated_ekfac > 0, (undeflated_ekfac + eps) ** alpha, 0.0\n", "        undeflated_ekfac >= 0, (undeflated_ekfac + eps) ** alpha, 0.0\n")
M(['C09', 'C15'], 'sk-cutoff-test-inverted', SK, "  cutoff = jnp.maximum(s[k], 0.0) if k < len(s) else 0.0", "  cutoff = jnp.maximum(s[k], 0.0) if k > len(s) else 0.0")
TW(['C09', 'C15'], 'twin-sk-mask-mirrored', SK, "  mask = deflated > 0\n", "  mask = 0 < deflated\n")
TW(['C09', 'C15'], 'twin-sk-inv-tail-negated-guard', SK, "  inv_tail = jnp.where(tail > 0, (tail + eps) ** alpha, 0.0)\n", "  inv_tail = jnp.where(tail <= 0, 0.0, (tail + eps) ** alpha)\n")
TW(['C09', 'C15'], 'twin-sk-cutoff-test-mirrored', SK, "  cutoff = jnp.maximum(s[k], 0.0) if k < len(s) else 0.0", "  cutoff = jnp.maximum(s[k], 0.0) if len(s) > k else 0.0")

# ------------------------------------------------------------------ C10
M('C10', 'pack-const-collides-tail', DS, "  precond = precond.at[0, -1].set(new_const)", "  precond = precond.at[1, -1].set(new_const)")
M('C10', 'unpack-eigvals-region', DS, "  eigvals = preconditioner[-r:, -1]\n", "  eigvals = preconditioner[:r, -1]\n")
M('C10', 'pack-inverted-last-col', DS, "  precond = precond.at[:rank, -2].set(inverted_eigs)", "  precond = precond.at[:rank, -1].set(inverted_eigs)")
M('C10', 'unpack-tail-row', DS, "  tail = preconditioner[1, -1]\n", "  tail = preconditioner[2, -1]\n")
M('C10', 'unpack-order-swapped', DS, "  return eigvecs, inverted_eigvals, const, has_zeros", "  return eigvecs, const, inverted_eigvals, has_zeros")
M('C10', 'pack-wrapper-eigs-in-deflated', DS, "  return _fd_low_rank_pack(eigvecs, jnp.zeros_like(eigvals), eigvals, const,", "  return _fd_low_rank_pack(eigvecs, eigvals, jnp.zeros_like(eigvals), const,")
M('C10', 'pack-dtype-pinned', DS, "  precond = jnp.zeros((d, rank + 2))\n", "  precond = jnp.zeros((d, rank + 2), dtype=jnp.float32)\n")
# behaviour-preserving: at compressed_size == dim both spellings return dim (found when the predicate rule became semantic)
TW('C10', 'twin-precond-dim-strict', DS, "  if compressed_size >= dim:\n    return dim", "  if compressed_size > dim:\n    return dim")
M('C10', 'precond-dim-width-off-by-one', DS, "  compressed_size = abs(compression_rank) + 2\n  if compressed_size >= dim:", "  compressed_size = abs(compression_rank) + 1\n  if compressed_size >= dim:")
M('C10', 'should-compress-le', DS, "  return compression_rank != 0 and abs(compression_rank) + 2 < dim", "  return compression_rank != 0 and abs(compression_rank) + 2 <= dim")
TW('C10', 'twin-unused-abs-rank-local', DS, "      should_compress = _should_compress(compression_rank, padding_start)\n\n      if frequent_directions:", "      compression_rank_ = abs(compression_rank)\n      should_compress = _should_compress(compression_rank, padding_start)\n\n      if frequent_directions:")
M('C10', 'lowroot-gets-abs-rank', DS, "            _low_rank_root,\n            compression_rank=compression_rank,", "            _low_rank_root,\n            compression_rank=abs(compression_rank),")
M('C10', 'cond-arms-swapped', DS, "      return jax.lax.cond(\n          should_compress, special_root,\n          functools.partial(\n              small_mi_pth_root,\n              padding_start=padding_start,\n              prev=prev,\n          ), stats, exponents)", "      return jax.lax.cond(\n          should_compress,\n          functools.partial(\n              small_mi_pth_root,\n              padding_start=padding_start,\n              prev=prev,\n          ), special_root, stats, exponents)")
M('C10', 'skip-select-inverted', DS, "        g = jnp.where(skip, old_g, new_g)", "        g = jnp.where(skip, new_g, old_g)")
M('C10', 'skip-guard-narrowed', DS, "        g = jnp.where(skip, old_g, new_g)", "        g = jnp.where(skip & (const == 0.0), old_g, new_g)")
M('C10', 'apply-no-complement', DS, "        new_g = const * complement + scaled_lowrank_component", "        new_g = const * g + scaled_lowrank_component")
M('C10', 'apply-scaled-axis', DS, "        scaled_lowrank_component = jnp.tensordot(\n            scaled_basis, eigvecs, axes=[[rank - 1], [1]])", "        scaled_lowrank_component = jnp.tensordot(\n            scaled_basis, eigvecs, axes=[[rank - 1], [0]])")
M('C10', 'lowroot-neg-no-roll', DS, "    inv_e = jnp.roll(inv_e, -(d - padding_start))\n    u = jnp.roll(u, -(d - padding_start), axis=1)", "    inv_e = jnp.roll(inv_e, -(d - padding_start))\n    u = jnp.roll(u, (d - padding_start), axis=1)")
M('C10', 'lowroot-avg-over-padded', DS, "  num_real_eigs_to_avg = real_dim - abs(compression_rank)", "  num_real_eigs_to_avg = d - abs(compression_rank)")
M('C10', 'lowroot-keep-split', DS, "  keep_e, to_avg_e = inv_e[:split_ix], inv_e[split_ix:]", "  keep_e, to_avg_e = inv_e[:split_ix], inv_e[split_ix + 1:]")
TW('C10', 'twin-unpack-positive-col', DS, "  const = preconditioner[0, -1]\n", "  const = preconditioner[0, r + 1]\n")

M(['C10', 'C09'], 'fd-statistics-predicate-args-swapped', DS, "          if _should_compress(self._compression_rank, g.shape[axis]):", "          if _should_compress(g.shape[axis], self._compression_rank):")
M('C10', 'preconditioner-shape-predicate-args-swapped', DS, "      return [dim, _precond_dim(self._compression_rank, dim)]", "      return [dim, _precond_dim(dim, self._compression_rank)]")
TW('C10', 'twin-predicate-abs-rank-local', DS, "          if _should_compress(self._compression_rank, g.shape[axis]):", "          if _should_compress(abs(self._compression_rank), g.shape[axis]):")
M('C06', 'partitioner-announced-sizes-count', DS, "        sizes = np.ones(nsplit + 1, dtype=np.int32) * block_size\n", "        sizes = np.ones(nsplit + 2, dtype=np.int32) * block_size\n")
M('C06', 'partitioner-announced-sizes-value', DS, "        sizes = np.ones(nsplit + 1, dtype=np.int32) * block_size\n", "        sizes = np.ones(nsplit + 1, dtype=np.int32) + block_size\n")

# ------------------------------------------------------------------ C11
M('C11', 'int8-128-buckets', QU, "      num_buckets = jnp.array(127.0, dtype=float_dtype)", "      num_buckets = jnp.array(128.0, dtype=float_dtype)")
M('C11', 'int16-32768-buckets', QU, "      num_buckets = jnp.array(32767.0, dtype=float_dtype)", "      num_buckets = jnp.array(32768.0, dtype=float_dtype)")
M('C11', 'no-round', QU, "    quantized = jnp.round(ratio)\n", "    quantized = ratio\n")
M('C11', 'floor', QU, "    quantized = jnp.round(ratio)\n", "    quantized = jnp.floor(ratio)\n")
M('C11', 'round-half-up-trunc', QU, "    quantized = jnp.round(ratio)\n", "    quantized = ratio + 0.5\n")
M('C11', 'scale-axis-1', QU, "    max_abs = jnp.max(jnp.abs(fvalue), axis=0)", "    max_abs = jnp.max(jnp.abs(fvalue), axis=-1)")
M('C11', 'no-zero-guard', QU, "    ratio = fvalue / bs_nonzero", "    ratio = fvalue / bs_expanded")
M('C11', 'overflowing-ratio', QU, "    ratio = fvalue / bs_nonzero", "    ratio = fvalue * num_buckets / jnp.where(max_abs > 0, max_abs, 1.0)[jnp.newaxis, ...]")
M('C11', 'diag-not-removed', QU, "      fvalue = fvalue - jnp.diag(diagonal_fvalue)", "      fvalue = fvalue")
M('C11', 'diag-clamped-on-read', QU, "      val += jnp.diag(self.diagonal)", "      val += jnp.diag(jnp.maximum(self.diagonal, 0.0))")
M('C11', 'to-float-bucket-axis', QU, "    bucket_size = self.bucket_size[jnp.newaxis, ...]\n    val =", "    bucket_size = self.bucket_size[..., jnp.newaxis]\n    val =")
M('C11', 'to-float-no-diag', QU, "    if self.extract_diagonal:\n      val += jnp.diag(self.diagonal)", "    if self.extract_diagonal and False:\n      val += jnp.diag(self.diagonal)")
M('C11', 'from-float-shape-tuple', QU, "                          list(quantized.shape))", "                          quantized.shape)")
M('C11', 'from-float-flag-dropped', QU, "    quantized, diagonal_fvalue, bucket_size = QuantizedValue.quantize(\n        fvalue, quantized_dtype, extract_diagonal)", "    quantized, diagonal_fvalue, bucket_size = QuantizedValue.quantize(\n        fvalue, quantized_dtype)")
M('C11', 'rewrap-flag-false', DS, "      qv = QuantizedValue(qx, qd, qb, qx.dtype, True, list(qx.shape))", "      qv = QuantizedValue(qx, qd, qb, qx.dtype, False, list(qx.shape))")
M('C11', 'bf16-to-float-noop', QU, "      return self.quantized.astype(jnp.float32)", "      return self.quantized")
TW('C11', 'twin-rint', QU, "    quantized = jnp.round(ratio)\n", "    quantized = jnp.rint(ratio)\n")
TW('C11', 'twin-bucket-renamed', QU, "    bucket_size = max_abs / num_buckets\n    bs_expanded = bucket_size[jnp.newaxis, ...]", "    scale = max_abs / num_buckets\n    bucket_size = scale\n    bs_expanded = scale[jnp.newaxis, ...]")

# ------------------------------------------------------------------ C12
M('C12', 'sketch-min', SM3, "      dim_diagonal_statistics = jnp.max(updated_diagonal_statistics, axis=axes)", "      dim_diagonal_statistics = jnp.min(updated_diagonal_statistics, axis=axes)")
M('C12', 'sketch-mean', SM3, "      dim_diagonal_statistics = jnp.max(updated_diagonal_statistics, axis=axes)", "      dim_diagonal_statistics = jnp.mean(updated_diagonal_statistics, axis=axes)")
M('C12', 'sketch-masked-max', SM3, "      dim_diagonal_statistics = jnp.max(updated_diagonal_statistics, axis=axes)", "      dim_diagonal_statistics = jnp.max(updated_diagonal_statistics, axis=axes, where=jnp.isfinite(updated_diagonal_statistics), initial=0.0)")
M('C12', 'sketch-axes-prefix-only', SM3, "      axes = list(range(i)) + list(range(i + 1, grad.ndim))", "      axes = list(range(i)) + list(range(i + 2, grad.ndim))")
M('C12', 'grad-not-squared', SM3, "      return beta2 * min_accumulator + w * grad**2", "      return beta2 * min_accumulator + w * jnp.abs(grad)")
M('C12', 'rank1-wrong-acc', SM3, "      return beta2 * accumulators[0] + w * grad**2", "      return beta2 * accumulators[-1] * 0.5 + w * grad**2")
M('C12', 'w-when-beta2-1', SM3, "    w = (1.0 - beta2) if beta2 != 1.0 else 1.0\n    if grad.ndim < 2:", "    w = (1.0 - beta2)\n    if grad.ndim < 2:")
M('C12', 'expanded-shape-wrong-axis', SM3, "    return [1] * i + [shape[i]] + [1] * (rank - i - 1)", "    return [1] * (rank - i - 1) + [shape[i]] + [1] * i")
M2('C12', 'normalised-stats-raw-step', [(SM3, "    stats = state.stats\n    if normalize_grads:", "    stats = state.stats\n    raw_updates = updates\n    if normalize_grads:"), (SM3, "    preconditioned_grads = jax.tree.map(lambda g, p: g * p, updates,\n                                        new_preconditioners)", "    preconditioned_grads = jax.tree.map(lambda g, p: g * p, raw_updates,\n                                        new_preconditioners)")])
M('C12', 'precond-from-old-stats', SM3, "        lambda t: 1.0 / jnp.sqrt(t + diagonal_epsilon), new_diagonal_statistics)", "        lambda t: 1.0 / jnp.sqrt(t + diagonal_epsilon), jax.tree.map(lambda e: functools.reduce(jnp.minimum, e), expanded_diagonal_statistics))")
M('C12', 'init-acc-param-dtype', SM3, "      accumulators = [jnp.zeros([s]) for s in param.shape]", "      accumulators = [jnp.zeros([s], dtype=param.dtype) for s in param.shape]")
M('C12', 'rank1-override-dropped', SM3, "    if grad.ndim == 1:\n      all_diagonal_statistics[0] = updated_diagonal_statistics\n", "")
TW('C12', 'twin-combine-maximum', SM3, "      min_accumulator = functools.reduce(jnp.minimum, accumulators)", "      min_accumulator = functools.reduce(jnp.maximum, accumulators)")
TW('C12', 'twin-square', SM3, "      return beta2 * min_accumulator + w * grad**2", "      return w * jnp.square(grad) + min_accumulator * beta2")

# ------------------------------------------------------------------ C13
M('C13', 'pmap-pad-count-wrong', DS, "    to_pad = -num_statistics % num_devices\n    packed_statistics.extend([", "    to_pad = num_statistics % num_devices\n    packed_statistics.extend([")
M('C13', 'quantized-pad-count-wrong', DS, "    to_pad = -num_statistics % num_devices\n    padded_eye", "    to_pad = (num_devices - num_statistics) % num_devices + num_devices\n    padded_eye")
M('C13', 'sharded-update-pad-count', DS, "    to_pad = -len(new_padded_statistics) % num_devices_for_pjit\n    if not new_padded_statistics:", "    to_pad = len(new_padded_statistics) % num_devices_for_pjit\n    if not new_padded_statistics:")
M('C13', 'sharded-init-no-empty-case', DS, "    if max_size == 0:\n      to_pad = num_devices_for_pjit\n      max_size = block_size", "    if max_size == 0:\n      max_size = block_size")
M('C13', 'exponents-not-padded', DS, "    exponents.extend([1 for _ in range(to_pad)])\n    paddings = [len(stat) for stat in statistics] + [0] * to_pad\n\n    if not packed_statistics:", "    paddings = [len(stat) for stat in statistics] + [0] * to_pad\n\n    if not packed_statistics:")
M('C13', 'paddings-one-extra', DS, "    paddings = [len(stat) for stat in statistics] + [0] * to_pad\n\n    if not packed_statistics:", "    paddings = [len(stat) for stat in statistics] + [0] * (to_pad + 1)\n\n    if not packed_statistics:")
M('C13', 'pads-first', DS, "    paddings = [len(stat) for stat in statistics] + [0] * to_pad\n\n    if not packed_statistics:", "    paddings = [0] * to_pad + [len(stat) for stat in statistics]\n\n    if not packed_statistics:")
M('C13', 'pad-exponent-2', DS, "    exponents.extend([1 for _ in range(to_pad)])\n    paddings = [len(stat) for stat in statistics] + [0] * to_pad\n\n    if not packed_statistics:", "    exponents.extend([2 for _ in range(to_pad)])\n    paddings = [len(stat) for stat in statistics] + [0] * to_pad\n\n    if not packed_statistics:")
M('C13', 'batch-stride-devices', DS, "  return jnp.stack([jnp.stack(x[idx:idx + b]) for idx in range(0, n, b)])", "  return jnp.stack([jnp.stack(x[idx:idx + b]) for idx in range(0, n, num_devices)])")
M('C13', 'batch-b-ceil', DS, "  b = int(n / num_devices)\n", "  b = int((n + num_devices - 1) / num_devices)\n")
M('C13', 'unbatch-inner-axis', DS, "      for v in jnp.split(v_array, indices_or_sections=b2, axis=0):", "      for v in jnp.split(v_array, indices_or_sections=b2, axis=-1):")
M('C13', 'replica-index-mismatch', DS, "            all_exponents[current_replica],\n            all_paddings[current_replica],\n            _maybe_ix(all_preconditioners, current_replica),", "            all_exponents[current_replica],\n            all_paddings[0],\n            _maybe_ix(all_preconditioners, current_replica),")
M('C13', 'prev-precond-replica-0', DS, "            all_paddings[current_replica],\n            _maybe_ix(all_preconditioners, current_replica),", "            all_paddings[current_replica],\n            _maybe_ix(all_preconditioners, 0),")
M('C13', 'quantized-prev-bucket-replica-0', DS, "           _maybe_ix(all_quantized_precond_bucket_sizes, current_replica),", "           _maybe_ix(all_quantized_precond_bucket_sizes, 0),")
M('C13', 'one-exponent-per-state', DS, "        for statistic in state.statistics:\n          exponents.append(preconditioner.exponent_for_preconditioner(\n          ) if exponent_override == 0 else exponent_override)\n          original_shapes_for_state.append(statistic.shape)",
  "        exponents.append(preconditioner.exponent_for_preconditioner(\n        ) if exponent_override == 0 else exponent_override)\n        for statistic in state.statistics:\n          original_shapes_for_state.append(statistic.shape)")
M('C13', 'prev-preconditioners-unguarded', DS, "        statistics.extend(state.statistics)\n        prev_preconditioners.extend(state.preconditioners)\n        original_shapes.extend(original_shapes_for_state)",
  "        statistics.extend(state.statistics)\n        original_shapes.extend(original_shapes_for_state)\n      prev_preconditioners.extend(state.preconditioners[:1])")
M('C13', 'per-state-count-skips-empty', DS, "      num_statistics = len(state.statistics)\n      num_statistics_per_state.append(num_statistics)\n      original_shapes_for_state = []\n      if num_statistics > 0:",
  "      num_statistics = len(state.statistics)\n      original_shapes_for_state = []\n      if num_statistics > 0:\n        num_statistics_per_state.append(num_statistics)")
TW('C13', 'twin-exponent-hoisted', DS, "        for statistic in state.statistics:\n          exponents.append(preconditioner.exponent_for_preconditioner(\n          ) if exponent_override == 0 else exponent_override)\n          original_shapes_for_state.append(statistic.shape)",
  "        exponents.extend([preconditioner.exponent_for_preconditioner(\n        ) if exponent_override == 0 else exponent_override] * num_statistics)\n        for statistic in state.statistics:\n          original_shapes_for_state.append(statistic.shape)")
M('C13', 'gather-other-axis', DS, "        preconditioners = jax.lax.all_gather(preconditioners, batch_axis_name)\n        metrics = jax.lax.all_gather(metrics, batch_axis_name)\n        preconditioners_flat = unbatch(preconditioners)", "        preconditioners = jax.lax.all_gather(preconditioners, 'batch')\n        metrics = jax.lax.all_gather(metrics, batch_axis_name)\n        preconditioners_flat = unbatch(preconditioners)")
M('C13', 'quantized-precond-diag-slice', DS, "      ] + packed_quantized_diagonals[total - to_pad:]", "      ] + packed_quantized_diagonals[total - to_pad + 1:]")
TW('C13', 'twin-pad-formula-variable', DS, "    to_pad = -num_statistics % num_devices\n    packed_statistics.extend([", "    to_pad = (-num_statistics) % num_devices\n    packed_statistics.extend([")

M(['C04', 'C02'], 'pmap-early-return-inverted', DS, "    if not packed_statistics:\n      return states\n\n    if reuse_preconditioner:\n      assert len(prev_preconditioners) == num_statistics\n      packed_preconditioners = pad_and_maybe_zero_preconditioners(", "    if packed_statistics:\n      return states\n\n    if reuse_preconditioner:\n      assert len(prev_preconditioners) == num_statistics\n      packed_preconditioners = pad_and_maybe_zero_preconditioners(")
M(['C13', 'C08'], 'pmap-redistribution-starts-at-one', DS, "    preconditioners_for_states = []\n    idx = 0\n    metrics_for_states = []", "    preconditioners_for_states = []\n    idx = 1\n    metrics_for_states = []")
TW('C13', 'twin-pmap-redistribution-unconditional-advance', DS, "        metrics_for_states.append(metrics_for_state)\n\n        idx += num_statistics\n    new_states = []", "        metrics_for_states.append(metrics_for_state)\n\n      idx += num_statistics\n    new_states = []")

M(['C13', 'C07'], 'pmap-slice-back-square', DS, "          _select_preconditioner(error, p[:shape[0], :shape[1]], prev_p))\n\n    assert len(states) == len(num_statistics_per_state)\n    assert len(new_preconditioners_flat) == num_statistics\n    assert len(new_errors_flat) == len(packed_statistics), (", "          _select_preconditioner(error, p[:shape[0], :shape[0]], prev_p))\n\n    assert len(states) == len(num_statistics_per_state)\n    assert len(new_preconditioners_flat) == num_statistics\n    assert len(new_errors_flat) == len(packed_statistics), (")

TW(['C13', 'C07'], 'twin-sharded-init-exponents-padded-at-end', DS, "    exponents.extend([1 for _ in range(to_pad)])\n    global_stats = GlobalShardedParameterStats(\n        jnp.stack(padded_statistics), jnp.stack(padded_preconditioners),\n        jnp.stack(exponents))", "    stacked_exponents = jnp.pad(jnp.asarray(exponents, dtype=jnp.int32), (0, to_pad), constant_values=1)\n    global_stats = GlobalShardedParameterStats(\n        jnp.stack(padded_statistics), jnp.stack(padded_preconditioners),\n        stacked_exponents)")

M('C13', 'vmap-exponent-of-first-statistic', DS, '    return jax.vmap(mi_pth_root)(\n        xs, ps, padding_start=padding_starts, prev=prev)\n', '    return jax.vmap(mi_pth_root, in_axes=(0, None))(\n        xs, ps[0], padding_start=padding_starts, prev=prev)\n')
M('C13', 'vmap-padding-start-of-first-statistic', DS, '    return jax.vmap(matrix_inverse_pth_root_wrapper)(qxs, qds, qbs, ps,\n                                                     padding_starts, qpxs, qpds,\n                                                     qpbs)\n', '    return jax.vmap(matrix_inverse_pth_root_wrapper, in_axes=(0, 0, 0, 0, None, 0, 0, 0))(qxs, qds, qbs, ps,\n                                                     padding_starts[0], qpxs, qpds,\n                                                     qpbs)\n')
M('C13', 'vmap-prev-dropped', DS, '    return jax.vmap(mi_pth_root)(\n        xs, ps, padding_start=padding_starts, prev=prev)\n', '    return jax.vmap(mi_pth_root)(\n        xs, ps, padding_start=padding_starts, prev=None)\n')
M('C13', 'vmap-all-padding-shortcut-on-last', DS, '    return jax.vmap(mi_pth_root)(\n        xs, ps, padding_start=padding_starts, prev=prev)\n', '    roots_fn = functools.partial(\n        jax.vmap(mi_pth_root), xs, ps, padding_start=padding_starts, prev=prev)\n\n    def zero_roots_fn():\n      return jax.tree.map(lambda s: jnp.zeros(s.shape, s.dtype),\n                          jax.eval_shape(roots_fn))\n\n    return lax.cond(padding_starts[-1] == 0, zero_roots_fn, roots_fn)\n')
TW('C13', 'twin-vmap-all-padding-shortcut-on-first', DS, '    return jax.vmap(mi_pth_root)(\n        xs, ps, padding_start=padding_starts, prev=prev)\n', '    roots_fn = functools.partial(\n        jax.vmap(mi_pth_root), xs, ps, padding_start=padding_starts, prev=prev)\n\n    def zero_roots_fn():\n      return jax.tree.map(lambda s: jnp.zeros(s.shape, s.dtype),\n                          jax.eval_shape(roots_fn))\n\n    return lax.cond(padding_starts[0] == 0, zero_roots_fn, roots_fn)\n')
TW('C13', 'twin-vmap-explicit-in-axes', DS, '    return jax.vmap(matrix_inverse_pth_root_wrapper)(qxs, qds, qbs, ps,\n                                                     padding_starts, qpxs, qpds,\n                                                     qpbs)\n', '    return jax.vmap(matrix_inverse_pth_root_wrapper, in_axes=(0,) * 8, out_axes=0)(qxs, qds, qbs, ps,\n                                                     padding_starts, qpxs, qpds,\n                                                     qpbs)\n')

# ------------------------------------------------------------------ C14
M2('C14', 'closure-step-counter', [(DS, "  def update_fn(grads, state, params):\n    \"\"\"Transform the input gradient and update all statistics.\n", "  host_steps = [0]\n\n  def update_fn(grads, state, params):\n    \"\"\"Transform the input gradient and update all statistics.\n"),
                                   (DS, "    params_flat, treedef = jax.tree.flatten(params)\n    stats_flat = treedef.flatten_up_to(state.stats)", "    host_steps.append(len(host_steps))\n    params_flat, treedef = jax.tree.flatten(params)\n    stats_flat = treedef.flatten_up_to(state.stats)")])
M2('C14', 'nonlocal-counter', [(SM3, "  def update_fn(updates, state, params):\n    stats = state.stats", "  calls = 0\n\n  def update_fn(updates, state, params):\n    nonlocal calls\n    calls += 1\n    stats = state.stats")])
M('C14', 'global-rng-start-vector', DS, "  v_0 = np.random.RandomState(1729).uniform(-1.0, 1.0,\n                                            matrix_size).astype(matrix.dtype)", "  v_0 = np.random.uniform(-1.0, 1.0,\n                          matrix_size).astype(matrix.dtype)")
M('C14', 'unseeded-generator', DS, "  v_0 = np.random.RandomState(1729).uniform(-1.0, 1.0,", "  v_0 = np.random.RandomState().uniform(-1.0, 1.0,")
M2('C14', 'memoised-root', [(TS, "def _pth_inv_root(p: int, cov: jax.Array) -> jax.Array:", "@functools.lru_cache(maxsize=8)\ndef _pth_inv_root(p: int, cov: jax.Array) -> jax.Array:")])
M2('C14', 'module-cache-dict', [(TS, "def _blocks_metadata(\n    options: Options, param_shape: Sequence[int], debug: str\n) -> _BlocksMetadata:\n  \"\"\"Generate the blocks metadata for a parameter.\"\"\"\n", "_META_CACHE = {}\n\n\ndef _blocks_metadata(\n    options: Options, param_shape: Sequence[int], debug: str\n) -> _BlocksMetadata:\n  \"\"\"Generate the blocks metadata for a parameter.\"\"\"\n  _META_CACHE[debug] = tuple(param_shape)\n")])
M('C14', 'sketchy-count-float', SK, "  return _SketchyState(\n      count=jnp.zeros([], jnp.int32),", "  return _SketchyState(\n      count=jnp.zeros([], jnp.float32),")
M('C14', 'state-attr-store', GR, "    new_state = GraftingState(\n        count=state.count + 1,\n        direction=base_state,\n        norm=graft_state,\n    )", "    new_state = GraftingState(\n        count=state.count + 1,\n        direction=base_state,\n        norm=graft_state,\n    )\n    direction.last_state = base_state")
M('C14', 'clock-dependent-interval', TS, "  should_update_stats = (state.count % options.update_statistics_freq) == 0", "  import time\n  should_update_stats = ((state.count + int(time.time()) % 1) % options.update_statistics_freq) == 0")
M2('C14', 'exponents-list-captured', [(DS, "    original_shapes = []\n    exponents = []\n    max_size = 0\n    prev_preconditioners = []\n", "    original_shapes = []\n    exponents = _shared_exponents\n    max_size = 0\n    prev_preconditioners = []\n"),
  (DS, "  def _compute_preconditioners(states, params, step):", "  _shared_exponents = []\n\n  def _compute_preconditioners(states, params, step):")])
TW('C14', 'twin-local-list-building', DS, "    new_padded_statistics = []\n    padding_starts = []", "    new_padded_statistics = list()\n    padding_starts = []")

# ------------------------------------------------------------------ C15
M('C15', 'chain-momentum-lr-swapped', OP, "  return praxis_shim.sharded_chain(\n      graft_tx,\n      momentum_tx,\n      lr_tx,\n  )", "  return praxis_shim.sharded_chain(\n      graft_tx,\n      lr_tx,\n      momentum_tx,\n  )")
M('C15', 'lr-sign', OP, "    lr_tx = optax.scale(-1.0 * learning_rate)", "    lr_tx = optax.scale(learning_rate)")
M('C15', 'lr-schedule-offset', OP, "    lr_tx = optax.scale_by_schedule(lambda x: -1.0 * learning_rate(x))", "    lr_tx = optax.scale_by_schedule(lambda x: -1.0 * learning_rate(x + 1))")
M('C15', 'unmerge-other-options', SO, "      reshaper.unmerge(reshaper_options),", "      reshaper.unmerge(reshaper.Options(options.merge_dims, 0)),")
M('C15', 'sketchy-gets-block-size', SO, "    return reshaper.Options(options.merge_dims, 0)", "    return reshaper.Options(options.merge_dims, options.shampoo_options.block_size)")
M('C15', 'ema-scale-after-trace', MO, "    if options.ema:\n      momentum_transforms.append(optax.scale(1 - options.momentum_decay))\n    momentum_transforms.append(\n        _sharded_trace(options.momentum_decay, options.nesterov)\n    )", "    momentum_transforms.append(\n        _sharded_trace(options.momentum_decay, options.nesterov)\n    )\n    if options.ema:\n      momentum_transforms.append(optax.scale(1 - options.momentum_decay))")
M('C15', 'wd-order-inverted', MO, "  if options.weight_decay_after_momentum:\n    transforms = momentum_transforms + wd_transforms", "  if not options.weight_decay_after_momentum:\n    transforms = momentum_transforms + wd_transforms")
M('C15', 'trace-nesterov-dropped', MO, "  trace = optax.trace(momentum, nesterov)", "  trace = optax.trace(momentum, False)")
M('C15', 'shampoo-p-rank', TS, "  p = len(meta.param_shape) * 2\n", "  p = len(meta.param_shape)\n")
M('C15', 'shampoo-half-exponent', TS, "  half = jnp.where(mask, 1.0, w) ** (-0.5 / p)", "  half = jnp.where(mask, 1.0, w) ** (-1.0 / p)")
M('C15', 'shampoo-eps-large', TS, "  eps = 1e-6\n  w, v = jnp.linalg.eigh(cov)", "  eps = 1e-3\n  w, v = jnp.linalg.eigh(cov)")
M('C15', 'sketchy-apply-tail-on-lowrank', SK, "      g = scaled_lowrank_component\n      inv_tail = axis_state.inv_tail if not ekfac else axis_state.inv_prev_tail\n      g += inv_tail * complement", "      g = scaled_lowrank_component\n      inv_tail = axis_state.inv_tail if not ekfac else axis_state.inv_prev_tail\n      g += inv_tail * lowrank_component")
M('C15', 'sketchy-apply-ekfac-tail', SK, "      inv_tail = axis_state.inv_tail if not ekfac else axis_state.inv_prev_tail", "      inv_tail = axis_state.inv_tail")
M('C15', 'chain-skips-state', PX, "    for s, fn in zip(state, args):\n      updates, new_s = fn.update(updates, s, params)", "    for s, fn in zip(state, reversed(args)):\n      updates, new_s = fn.update(updates, s, params)")
TW('C15', 'twin-lr-negation', OP, "    lr_tx = optax.scale(-1.0 * learning_rate)", "    lr_tx = optax.scale(-learning_rate)")

# ------------------------------------------------------------------ C16
M('C16', 'sada-alpha-factor', OCO, "  sketch_update_factor = 1.0\n  alpha_update_factor = 1.0\n  lr = hparams.lr\n  eig_inversion = jax.lax.rsqrt", "  sketch_update_factor = 1.0\n  alpha_update_factor = 0.5\n  lr = hparams.lr\n  eig_inversion = jax.lax.rsqrt")
M('C16', 'sada-inversion-reciprocal', OCO, "  lr = hparams.lr\n  eig_inversion = jax.lax.rsqrt", "  lr = hparams.lr\n  eig_inversion = jnp.reciprocal")
M('C16', 'table-sada-mapped-to-adafd', OCO, "      Algorithm.S_ADA: _sada(state, hparams),", "      Algorithm.S_ADA: _adafd(state, hparams),")
M('C16', 'alpha0-one', OCO, "  state['alpha'] = jnp.array(hparams.delta, dtype=jnp.float64)", "  state['alpha'] = jnp.array(1.0, dtype=jnp.float64)")
M('C16', 'double-squared-escaped-mass', OCO, "  rho = s[-1]\n  s = (s - rho) * (s + rho)", "  s = s**2\n  rho = s[-1]\n  s = s - rho")
M('C16', 'safe-invert-cutoff', OCO, "  eps = 0.0\n", "  eps = jnp.finfo(jnp.float32).eps\n")
M('C16', 'outside-sketch-other-inversion', OCO, "    inv_alpha = safe_invert(alpha)", "    inv_alpha = safe_invert(alpha, inversion=jnp.reciprocal)")
M('C16', 'outside-sketch-sign', OCO, "    outside_sketch_g = g - mm(P.T, mm(P, g))", "    outside_sketch_g = g + mm(P.T, mm(P, g))")
M('C16', 'adagrad-guard-dropped', OCO, "  rsqrt = jax.lax.rsqrt(jnp.where(state['diag_h'] == 0, 1, state['diag_h']))", "  rsqrt = jax.lax.rsqrt(state['diag_h'])")
M('C16', 'ogd-old-t', OCO, "  state['t'] += 1.0\n  state['w'] -= hparams.lr * grad * jax.lax.rsqrt(state['t'] + hparams.delta)", "  state['w'] -= hparams.lr * grad * jax.lax.rsqrt(state['t'] + hparams.delta)\n  state['t'] += 1.0")
M('C16', 'ada-dispatch-to-fd', OCO, "  elif hparams.algorithm == Algorithm.ADA:\n    assert hparams.sketch_size == 0, hparams.sketch_size\n    init, update = _diag_adagrad_init_fn, _diag_adagrad_update_fn", "  elif hparams.algorithm == Algorithm.ADA:\n    assert hparams.sketch_size == 0, hparams.sketch_size\n    init, update = _diag_adagrad_init_fn, _ogd_update_fn")
M('C16', 'adafd-d', OCO, "    d = e / (alpha + e)", "    d = e / (alpha + e * e)")
TW('C16', 'twin-deflate-expanded', OCO, "  s = (s - rho) * (s + rho)", "  s = s * s - rho * rho")

M2('C16', 'driver-static-update-fn-compare-false', [('precondition/oco/train.py', 'import functools\nfrom typing import Callable, Optional\n', 'import dataclasses\nimport functools\nfrom typing import Callable, Optional\n'), ('precondition/oco/train.py', "@functools.partial(\n    jax.jit,\n    static_argnames=[\n        'loss_and_grad',", "@dataclasses.dataclass(frozen=True)\nclass _StaticUpdateFn:\n  algorithm: algorithms.Algorithm\n  sketch_size: int\n  fn: algorithms.UpdateFn = dataclasses.field(compare=False)\n\n  def __call__(self, state, loss, grad):\n    return self.fn(state, loss, grad)\n\n\n@functools.partial(\n    jax.jit,\n    static_argnames=[\n        'loss_and_grad',"), ('precondition/oco/train.py', '  init_fn, update_fn = algorithms.generate_init_update(dataset.w_shape, hparams)\n', '  init_fn, update_fn = algorithms.generate_init_update(dataset.w_shape, hparams)\n  update_fn = _StaticUpdateFn(hparams.algorithm, hparams.sketch_size, update_fn)\n')])
M2('C16', 'driver-static-update-fn-custom-eq', [('precondition/oco/train.py', 'import functools\nfrom typing import Callable, Optional\n', 'import dataclasses\nimport functools\nfrom typing import Callable, Optional\n'), ('precondition/oco/train.py', "@functools.partial(\n    jax.jit,\n    static_argnames=[\n        'loss_and_grad',", "@dataclasses.dataclass(frozen=True)\nclass _StaticUpdateFn:\n  algorithm: algorithms.Algorithm\n  sketch_size: int\n  fn: algorithms.UpdateFn\n\n  def __eq__(self, other):\n    return (self.algorithm, self.sketch_size) == (other.algorithm, other.sketch_size)\n\n  def __hash__(self):\n    return hash((self.algorithm, self.sketch_size))\n\n  def __call__(self, state, loss, grad):\n    return self.fn(state, loss, grad)\n\n\n@functools.partial(\n    jax.jit,\n    static_argnames=[\n        'loss_and_grad',"), ('precondition/oco/train.py', '  init_fn, update_fn = algorithms.generate_init_update(dataset.w_shape, hparams)\n', '  init_fn, update_fn = algorithms.generate_init_update(dataset.w_shape, hparams)\n  update_fn = _StaticUpdateFn(hparams.algorithm, hparams.sketch_size, update_fn)\n')])
M2('C16', 'twin-driver-static-update-fn-full-equality', [('precondition/oco/train.py', 'import functools\nfrom typing import Callable, Optional\n', 'import dataclasses\nimport functools\nfrom typing import Callable, Optional\n'), ('precondition/oco/train.py', "@functools.partial(\n    jax.jit,\n    static_argnames=[\n        'loss_and_grad',", "@dataclasses.dataclass(frozen=True)\nclass _StaticUpdateFn:\n  algorithm: algorithms.Algorithm\n  sketch_size: int\n  fn: algorithms.UpdateFn\n\n  def __call__(self, state, loss, grad):\n    return self.fn(state, loss, grad)\n\n\n@functools.partial(\n    jax.jit,\n    static_argnames=[\n        'loss_and_grad',"), ('precondition/oco/train.py', '  init_fn, update_fn = algorithms.generate_init_update(dataset.w_shape, hparams)\n', '  init_fn, update_fn = algorithms.generate_init_update(dataset.w_shape, hparams)\n  update_fn = _StaticUpdateFn(hparams.algorithm, hparams.sketch_size, update_fn)\n')], kind='twin')
M('C16', 'driver-loss-and-grad-swapped', TR, "    state = update_fn(state, f, g)\n", "    state = update_fn(state, g, f)\n")
M('C16', 'driver-label-of-another-row', TR, "    f, g = loss_and_grad(state['w'], r, y[ix])\n", "    f, g = loss_and_grad(state['w'], r, y[idx])\n")
M('C16', 'driver-init-fn-not-called-per-run', TR, "  initial_state = init_fn()\n", "  initial_state = dict(w=jnp.zeros(dataset.w_shape))\n")
TW('C16', 'twin-driver-pair-indexed', TR, "  init_fn, update_fn = algorithms.generate_init_update(dataset.w_shape, hparams)\n", "  pair = algorithms.generate_init_update(hparams=hparams, w_shape=dataset.w_shape)\n  init_fn = pair[0]\n  update_fn = pair[1]\n")

# ------------------------------------------------------------------ C17
_TOPUP = "        if realloc[key] < dim:\n          realloc[key] += 1\n          extra -= 1\n        if extra <= 0:\n          break"
M('C17', 'F9-leftover-uncharged', RA, _TOPUP, "        realloc[key] = min(realloc[key] + 1, dim)\n        extra = extra - 1 if realloc[key] + 1 < dim else extra\n        if extra <= 0:\n          break")
M('C17', 'topup-break-strict', RA, _TOPUP, _TOPUP.replace("if extra <= 0:", "if extra < 0:"))
M('C17', 'topup-guard-le', RA, _TOPUP, _TOPUP.replace("if realloc[key] < dim:", "if realloc[key] <= dim:"))
M('C17', 'topup-no-break', RA, _TOPUP, "        if realloc[key] < dim:\n          realloc[key] += 1\n          extra -= 1")
M('C17', 'topup-double-rank', RA, _TOPUP, _TOPUP.replace("realloc[key] += 1", "realloc[key] += 2"))
M('C17', 'budget-assert-removed', RA, "    assert allocated <= group_resource, (group_resource, allocated)\n", "")
M('C17', 'budget-not-reset', RA, "    _, _, group_resource = grp_info(dim)\n    assert allocated", "    group_resource = group_resource + allocated\n    assert allocated")
M('C17', 'F19-truthiness-guard', RA, "        unit_rsc = group_resource / total_score if total_score > 0 else 0.0", "        unit_rsc = group_resource / total_score if total_score else 0.0")
M('C17', 'regular-layer-undercharged', RA, "        group_resource -= (rd(pair[1] * unit_rsc) - 1)", "        group_resource -= (rd(pair[1] * unit_rsc) - 2)")
M('C17', 'rd-no-plus-one', RA, "    return int(x // 1) + 1", "    return int(x // 1)")
M('C17', 'groups-by-rank', RA, "      key = carry['eigvecs'].shape[0]", "      key = carry['eigvals'].shape[0]")
M('C17', 'budget-per-group-plus-one', RA, "    group_resource = group_size * sketchy_rank", "    group_resource = group_size * (sketchy_rank + 1)")
M('C17', 'no-unit-reservation', RA, "    group_resource -= group_size\n    total_score", "    total_score")
M('C17', 'rank-bound-assert-loop-removed', RA, "    for key in realloc:\n      assert realloc[key] <= dim, (key, realloc[key], dim)\n", "")
M('C17', 'remaining-score-double-decrease', RA, "        group_resource -= (rd(pair[1] * unit_rsc) - 1)\n        total_score -= pair[1]", "        group_resource -= (rd(pair[1] * unit_rsc) - 1)\n        total_score -= 2 * pair[1]")
M('C17', 'outlier-gets-dim-plus-one', RA, "        realloc.update({pair[0]: dim})", "        realloc.update({pair[0]: dim + 1})")
M('C17', 'rank-stored-under-constant-key', RA, "        realloc.update({pair[0]: rd(pair[1] * unit_rsc)})", "        realloc.update({'layer': rd(pair[1] * unit_rsc)})")
TW('C17', 'twin-proportional-common-tail', RA, "      if is_outlier(pair[1], total_score, group_resource, dim - 1):\n        realloc.update({pair[0]: dim})\n        group_resource -= (dim - 1)\n        total_score -= pair[1]\n      else:\n        unit_rsc = group_resource / total_score if total_score > 0 else 0.0\n        realloc.update({pair[0]: rd(pair[1] * unit_rsc)})\n        group_resource -= (rd(pair[1] * unit_rsc) - 1)\n        total_score -= pair[1]\n",
   "      name, sc = pair\n      if is_outlier(sc, total_score, group_resource, dim - 1):\n        got = dim\n      else:\n        per_unit = group_resource / total_score if 0 < total_score else 0.0\n        got = rd(sc * per_unit)\n      realloc[name] = got\n      group_resource = group_resource - got + 1\n      total_score = total_score - sc\n")
M('C17', 'rank-assert-strict', RA, "      assert realloc[key] <= dim, (key, realloc[key], dim)", "      assert realloc[key] < dim, (key, realloc[key], dim)")
M('C17', 'budget-assert-strict', RA, "    assert allocated <= group_resource, (group_resource, allocated)", "    assert allocated < group_resource, (group_resource, allocated)")
M('C17', 'group-size-assert-strict', RA, "    assert group_resource >= group_size, (group_resource, group_size)", "    assert group_resource > group_size, (group_resource, group_size)")
M('C17', 'outlier-test-uses-dim', RA, "      if is_outlier(pair[1], total_score, group_resource, dim - 1):", "      if is_outlier(pair[1], total_score, group_resource, dim):")
M('C17', 'share-not-proportional', RA, "        unit_rsc = group_resource / total_score if total_score > 0 else 0.0\n        realloc.update", "        unit_rsc = group_resource * total_score if total_score > 0 else 0.0\n        realloc.update")
TW('C17', 'twin-topup-reordered-test', RA, _TOPUP, "        if dim > realloc[key]:\n          extra -= 1\n          realloc[key] += 1\n        if extra <= 0:\n          break")

M('C17', 'topup-multipass-stale-headroom-list', RA, '      for (key, _) in sorted_scores:\n        if realloc[key] < dim:\n          realloc[key] += 1\n          extra -= 1\n        if extra <= 0:\n          break\n', '      room = [key for (key, _) in sorted_scores if realloc[key] < dim]\n      while extra > 0 and room:\n        for key in room:\n          realloc[key] += 1\n          extra -= 1\n          if extra <= 0:\n            break\n')
TW('C17', 'twin-topup-multipass-rechecked', RA, '      for (key, _) in sorted_scores:\n        if realloc[key] < dim:\n          realloc[key] += 1\n          extra -= 1\n        if extra <= 0:\n          break\n', '      progress = True\n      while extra > 0 and progress:\n        progress = False\n        for (key, _) in sorted_scores:\n          if realloc[key] < dim:\n            realloc[key] += 1\n            extra -= 1\n            progress = True\n          if extra <= 0:\n            break\n')

M(['C09', 'C15'], 'sk-relative-eps-of-root-eigenvalue', SK, "    eps = jnp.max(undeflated) * options.epsilon\n", "    eps = top_eigs[0] * options.epsilon\n")
M(['C09', 'C15'], 'sk-relative-eps-of-deflated', SK, "    eps = jnp.max(undeflated) * options.epsilon\n", "    eps = jnp.max(deflated) * options.epsilon\n")
TW(['C09', 'C15'], 'twin-sk-relative-eps-commuted', SK, "    eps = jnp.max(undeflated) * options.epsilon\n", "    eps = options.epsilon * undeflated.max()\n")

M('C14', 'F22-sketchy-inplace-on-state-leaf', SK, "  sketch_dk = sketch_dk * axis_state.eigvals[jnp.newaxis, :]\n", "  sketch_dk *= axis_state.eigvals[jnp.newaxis, :]\n")
TW('C14', 'twin-sm3-tuple-concat-on-state-field', SM3, "    stats = state.stats\n", "    stats = state.stats\n    seq = state.stats\n    seq += ()\n")
TW('C14', 'twin-sketchy-scale-renamed', SK, "  sketch_dk = sketch_dk * axis_state.eigvals[jnp.newaxis, :]\n", "  scaled = axis_state.eigvecs * axis_state.eigvals[jnp.newaxis, :]\n  sketch_dk = scaled\n  sketch_dk *= 1\n")

M('C16', 'driver-starts-at-row-one', TR, "  initial_state['n'] = 0\n", "  initial_state['n'] = 1\n")
M('C16', 'driver-row-counter-stuck', TR, "    state['n'] += 1\n", "    state['n'] += 0\n")
TW('C16', 'twin-driver-row-counter-respelled', TR, "    state['n'] += 1\n", "    state['n'] = 1 + state['n']\n")

TW(['C13', 'C06'], 'twin-unbatch-comprehensions', DS, "  b1, b2 = batched_values.shape[0], batched_values.shape[1]\n  results = []\n  for v_array in jnp.split(batched_values, indices_or_sections=b1, axis=0):\n    v_array = jnp.squeeze(v_array, axis=0)\n    # b2 = batches (number of preconditioner computation) per core.\n    if b2 > 1:\n      for v in jnp.split(v_array, indices_or_sections=b2, axis=0):\n        results.append(jnp.squeeze(v, axis=0))\n    else:\n      results.append(jnp.squeeze(v_array, axis=0))\n  return results\n",
   "  n_dev, per = batched_values.shape[0], batched_values.shape[1]\n  rows = [jnp.squeeze(c, axis=0) for c in jnp.split(batched_values, n_dev, 0)]\n  if 1 < per:\n    return [jnp.squeeze(p, axis=0) for r in rows for p in jnp.split(r, per, 0)]\n  return [jnp.squeeze(r, axis=0) for r in rows]\n")
M(['C13', 'C06'], 'unbatch-comprehensions-column-major', DS, "  b1, b2 = batched_values.shape[0], batched_values.shape[1]\n  results = []\n  for v_array in jnp.split(batched_values, indices_or_sections=b1, axis=0):\n    v_array = jnp.squeeze(v_array, axis=0)\n    # b2 = batches (number of preconditioner computation) per core.\n    if b2 > 1:\n      for v in jnp.split(v_array, indices_or_sections=b2, axis=0):\n        results.append(jnp.squeeze(v, axis=0))\n    else:\n      results.append(jnp.squeeze(v_array, axis=0))\n  return results\n",
   "  n_dev, per = batched_values.shape[0], batched_values.shape[1]\n  cols = [jnp.squeeze(c, axis=1) for c in jnp.split(batched_values, per, 1)]\n  return [jnp.squeeze(p, axis=0) for col in cols for p in jnp.split(col, n_dev, 0)]\n")
TW('C12', 'twin-sm3-min-left-fold', SM3, "      min_accumulator = functools.reduce(jnp.minimum, accumulators)\n", "      min_accumulator = accumulators[0]\n      for other in accumulators[1:]:\n        min_accumulator = jnp.minimum(min_accumulator, other)\n")
M('C12', 'sm3-min-left-fold-skips-first', SM3, "      min_accumulator = functools.reduce(jnp.minimum, accumulators)\n", "      min_accumulator = accumulators[1]\n      for other in accumulators[2:]:\n        min_accumulator = jnp.minimum(min_accumulator, other)\n")

M('C09', 'avg-grad-never-restarts-for-interval-one', DS, '            jnp.logical_or(statistics_compute_steps == 1,\n                           step % statistics_compute_steps == 1), grad,\n', "            step % statistics_compute_steps == 1, grad,\n")
M('C09', 'avg-grad-restarts-on-refresh-step', DS, '            jnp.logical_or(statistics_compute_steps == 1,\n                           step % statistics_compute_steps == 1), grad,\n', "            jnp.logical_or(statistics_compute_steps == 1,\n                           step % statistics_compute_steps == 0), grad,\n")
TW('C09', 'twin-avg-grad-restart-respelled', DS, '            jnp.logical_or(statistics_compute_steps == 1,\n                           step % statistics_compute_steps == 1), grad,\n', "            jnp.logical_or(jnp.equal(jnp.mod(step, statistics_compute_steps), 1),\n                           1 == statistics_compute_steps), grad,\n")
M('C09', 'avg-grad-not-averaged', DS, "        grad = new_avg_grad / statistics_compute_steps\n", "        grad = new_avg_grad\n")

M('C11', 'stats-callback-adds-ridge', DS, "            from_float=lambda x: _maybe_quantize_statistics([x])[0],\n", "            from_float=lambda x: _maybe_quantize_statistics([x + matrix_epsilon * jnp.eye(x.shape[0])])[0],\n")
TW('C11', 'twin-stats-callback-named', DS, "      def compute_updated_statistics():\n        return preconditioner.updated_statistics_from_grad(\n            state.statistics,\n            grad,\n            w1=w1,\n            w2=w2,\n            to_float=_to_float,\n            from_float=lambda x: _maybe_quantize_statistics([x])[0],\n",
   "      def _requantize(matrix):\n        quantized = _maybe_quantize_statistics([matrix])\n        return quantized[0]\n\n      def compute_updated_statistics():\n        return preconditioner.updated_statistics_from_grad(\n            state.statistics,\n            grad,\n            w1=w1,\n            w2=w2,\n            to_float=lambda q: _to_float(q),\n            from_float=_requantize,\n")
M('C11', 'from-float-value-symmetrises', QU, "    quantized, diagonal_fvalue, bucket_size = QuantizedValue.quantize(\n        fvalue, quantized_dtype, extract_diagonal)\n    return QuantizedValue(quantized, diagonal_fvalue, bucket_size,", "    if extract_diagonal and fvalue.ndim == 2:\n      fvalue = 0.5 * (fvalue + fvalue.T)\n    quantized, diagonal_fvalue, bucket_size = QuantizedValue.quantize(\n        fvalue, quantized_dtype, extract_diagonal)\n    return QuantizedValue(quantized, diagonal_fvalue, bucket_size,")

M('C13', 'sharded-update-pad-eye-default-dtype', DS, "        [jnp.eye(max_size, dtype=stat_dtype) for _ in range(to_pad)])\n    padding_starts += [0] * to_pad\n", "        [jnp.eye(max_size) for _ in range(to_pad)])\n    padding_starts += [0] * to_pad\n")
M('C07', 'clip-norm-numpy-sqrt', DS, "            jnp.sqrt(float(rmsprop_update.size)))\n", "            np.sqrt(rmsprop_update.size))\n")
TW('C07', 'twin-clip-norm-float-wrapped-numpy', DS, "            jnp.sqrt(float(rmsprop_update.size)))\n", "            float(np.sqrt(rmsprop_update.size)))\n")
M2('C17', 'redist-tree-shared-row', [(RA, "    res = {}\n    for p in list(score_dict):\n", "    res = {}\n    row = [0] * num_axes\n    for p in list(score_dict):\n"), (RA, "      cur[dirs[-1]] = [0] * num_axes\n", "      cur[dirs[-1]] = row\n")])

TW(['C03', 'C02'], 'twin-gate-accept-form-strict-less', DS, '      return lax.cond(\n          _skip(error), lambda _: old_p, lambda _: new_p, operand=None)\n', "      return lax.cond(jnp.less(error, inverse_failure_threshold), lambda: new_p, lambda: old_p)\n", count=3)
M(['C03', 'C02'], 'gate-reject-form-without-isnan', DS, '      return lax.cond(\n          _skip(error), lambda _: old_p, lambda _: new_p, operand=None)\n', "      return lax.cond(error >= inverse_failure_threshold, lambda: old_p, lambda: new_p)\n", count=3)
M(['C03', 'C02'], 'gate-accept-form-non-strict', DS, '      return lax.cond(\n          _skip(error), lambda _: old_p, lambda _: new_p, operand=None)\n', "      return lax.cond(jnp.less_equal(error, inverse_failure_threshold), lambda: new_p, lambda: old_p)\n", count=3)
